"""C04 Angles, matrices and vectors obey the rotation algebra."""
from __future__ import annotations

import math
import os
import shutil
import subprocess
import tempfile
from typing import Any, List, Sequence, Tuple

from rv import bootstrap
from rv.util import mine, sub_rng
from rv.probes import ReachProbe

PROP = 'C04'
LEVEL = 'exploration'
RULE = ('angle triples from (i) uniform reals in +-720, (ii) all 24^3 multiples of 15 degrees (thorough; a seeded third '
        'of them in quick), (iii) pitch at +-90 +- {0,1e-12..1e-3} with random yaw/roll, (iv) from_basis / axis_angle '
        'constructions; vectors of magnitude up to 1e6; the operand matrix {Vec, FrozenVec, 3-tuple} x {Angle, '
        'FrozenAngle, Matrix, FrozenMatrix} x {@, @=, reflected @} and Angle/Matrix left operands. Laws: orthonormality '
        'and det=+1 (1e-12), agreement with an independent Rz(yaw)Ry(pitch)Rx(roll) model (1e-12), associativity '
        '(1e-9*max(1,|v|), widened by 6h per unit when a composed Angle passes through the gimbal branch with '
        'horizontal forward length h<=0.001), Vec@Angle == Vec@Matrix.from_angle (1e-12*max(1,|v|)), to_angle round trip '
        '(1e-9, or 2h+1e-9 under the gimbal threshold), inverse==transpose (1e-9), result types and operand immutability. '
        'Non-trivial = a rotation that is not axis-aligned (no angle a multiple of 90) or a pole case; distinct = distinct angle/vector input. '
        'Auxiliary engine: _math_matrix.cpp built with clang++-14 ASan+UBSan (scalar and SSE2 variants) and driven with '
        'rotation / scaled / singular / near-singular matrices.')
ASSUMPTIONS = ['Python implementation of srctools.math (the Cython twin cannot be built here)',
               'finite inputs', 'gimbal threshold 0.001 as stated by the property']
JOBS = {'quick': 2, 'thorough': 16}


# ------------------------------------------------------------------ independent model
def model_matrix(pitch: float, yaw: float, roll: float) -> List[List[float]]:
    """Rows = images of the X, Y, Z basis vectors under: roll about X, then pitch about Y, then yaw about Z.

    Written from the convention (right-handed rotations, column-vector maths), not from the library code.
    """
    p, y, r = math.radians(pitch), math.radians(yaw), math.radians(roll)

    def rx(v):
        return (v[0], v[1] * math.cos(r) - v[2] * math.sin(r), v[1] * math.sin(r) + v[2] * math.cos(r))

    def ry(v):
        return (v[0] * math.cos(p) + v[2] * math.sin(p), v[1], -v[0] * math.sin(p) + v[2] * math.cos(p))

    def rz(v):
        return (v[0] * math.cos(y) - v[1] * math.sin(y), v[0] * math.sin(y) + v[1] * math.cos(y), v[2])

    return [list(rz(ry(rx(e)))) for e in ((1.0, 0.0, 0.0), (0.0, 1.0, 0.0), (0.0, 0.0, 1.0))]


def mat_entries(m) -> List[List[float]]:
    return [[m[i, j] for j in range(3)] for i in range(3)]


def vmul(v: Sequence[float], m: List[List[float]]) -> Tuple[float, float, float]:
    return tuple(sum(v[k] * m[k][j] for k in range(3)) for j in range(3))  # type: ignore


def mmul(a, b):
    return [[sum(a[i][k] * b[k][j] for k in range(3)) for j in range(3)] for i in range(3)]


def det(m) -> float:
    return (m[0][0] * (m[1][1] * m[2][2] - m[1][2] * m[2][1]) - m[0][1] * (m[1][0] * m[2][2] - m[1][2] * m[2][0])
            + m[0][2] * (m[1][0] * m[2][1] - m[1][1] * m[2][0]))


def maxdiff(a, b) -> float:
    return max(abs(a[i][j] - b[i][j]) for i in range(3) for j in range(3))


def vdiff(a, b) -> float:
    return max(abs(x - y) for x, y in zip(a, b))


def horiz(m) -> float:
    return math.hypot(m[0][0], m[0][1])


# ------------------------------------------------------------------ generators
def gen_angle(rng, kind: int) -> Tuple[float, float, float]:
    if kind == 0:
        return (rng.uniform(-720, 720), rng.uniform(-720, 720), rng.uniform(-720, 720))
    if kind == 1:
        return (15.0 * rng.randrange(-24, 48), 15.0 * rng.randrange(-24, 48), 15.0 * rng.randrange(-24, 48))
    if kind == 2:
        eps = rng.choice((0.0, 1e-12, 1e-10, 1e-8, 1e-6, 1e-5, 1e-4, 5e-4, 1e-3, 0.05, 0.0572, 0.0574, 0.06))
        return (rng.choice((90.0, -90.0, 270.0)) + rng.choice((-1, 1)) * eps, rng.uniform(0, 360), rng.uniform(0, 360))
    if kind == 4:
        # rotations about a single axis (the other components exactly zero) and about two axes - what level designers type
        p, y, r = rng.uniform(-180, 360), rng.uniform(-360, 720), rng.uniform(-180, 360)
        return rng.choice(((0.0, y, 0.0), (p, 0.0, 0.0), (0.0, 0.0, r), (p, y, 0.0), (0.0, y, r), (p, 0.0, r), (-0.0, y, -0.0), (0.0, 90.0 * rng.randrange(-4, 8), 0.0),
                           (0.0, 0.0, 0.0), (360.0, -360.0, 720.0), (0.0, 0.0, 0.0)))  # the identity rotation, in two spellings
    return (rng.choice((0.0, 1e-13, -1e-13, 360.0, 359.99999999999994)), rng.uniform(-1e-9, 1e-9), rng.choice((0.0, 180.0, -1e-14)))


def gen_vec(rng) -> Tuple[float, float, float]:
    mag = rng.choice((0.0, 1.0, 1e-3, 16.0, 1024.0, 1e6))
    if rng.random() < 0.2:
        return tuple(rng.choice((0.0, 1.0, -1.0)) * mag for _ in range(3))  # type: ignore
    return tuple(rng.uniform(-mag, mag) for _ in range(3))  # type: ignore


def nontrivial_angle(a) -> bool:
    return any(abs(x % 90.0) > 1e-9 and abs(x % 90.0 - 90.0) > 1e-9 for x in a) or abs(abs(a[0]) % 180 - 90) < 0.06


# ------------------------------------------------------------------ laws
def law_matrix(run, a, engine, case) -> Any:
    from srctools.math import Matrix, FrozenMatrix, Angle, FrozenAngle
    mods = []
    for cls in (Matrix, FrozenMatrix):
        m = cls.from_angle(*a)
        e = mat_entries(m)
        mods.append((m, e))
        want = model_matrix(*a)
        d = maxdiff(e, want)
        run.count('from_angle_checked')
        if d > 1e-12:
            run.violation(f'{cls.__name__}.from_angle disagrees with the roll-X/pitch-Y/yaw-Z convention by {d:.3g}',
                          witness={'got': e, 'model': want}, case=case, engine=engine, key='from-angle-convention')
        ortho = maxdiff(mmul(e, [list(r) for r in zip(*e)]), [[1, 0, 0], [0, 1, 0], [0, 0, 1]])
        dt = det(e)
        if ortho > 1e-12 or abs(dt - 1) > 1e-12:
            run.violation(f'from_angle result is not a proper rotation (|R.Rt-I|={ortho:.3g}, det={dt!r})',
                          witness={'got': e}, case=case, engine=engine, key='not-proper-rotation')
        # via Angle object forms too
        for acls in (Angle, FrozenAngle):
            m2 = cls.from_angle(acls(*a))
            if maxdiff(mat_entries(m2), e) > 1e-12:
                run.violation(f'from_angle({acls.__name__}) differs from from_angle(p, y, r)', case=case, engine=engine,
                              key='from-angle-forms-differ')
    return mods


def unchanged(run, m, e, what: str, engine, case) -> None:
    """A method documented as returning a new value must leave the matrix it was called on as it was (frozen or not)."""
    now = mat_entries(m)
    if now != e:
        run.violation(f'{type(m).__name__}.{what} changed the matrix it was called on', witness={'before': e, 'after': now},
                      case=case, engine=engine, key='method-mutates-matrix')


def law_to_angle(run, m, e, engine, case) -> None:
    from srctools.math import Matrix
    ang = m.to_angle()
    unchanged(run, m, e, 'to_angle()', engine, case)
    back = mat_entries(Matrix.from_angle(ang))
    h = horiz(e)
    tol = 1e-9 if h > 0.001 else 2 * h + 1e-9
    d = maxdiff(back, e)
    run.count('to_angle_roundtrips')
    if h <= 0.001:
        run.count('to_angle_gimbal_branch')
    if d > tol:
        run.violation(f'to_angle()/from_angle() round trip differs by {d:.3g} (tolerance {tol:.3g}, horizontal forward length {h:.3g})',
                      witness={'matrix': e, 'angle': [ang.pitch, ang.yaw, ang.roll], 'back': back}, case=case,
                      engine=engine, key='to-angle-roundtrip')


def law_inverse(run, m, e, engine, case) -> None:
    try:
        inv = mat_entries(m.inverse())
    except ArithmeticError as exc:
        run.violation(f'inverse() of a rotation raised {exc}', case=case, engine=engine, key='inverse-raises')
        return
    unchanged(run, m, e, 'inverse()', engine, case)
    tr = mat_entries(m.transpose())
    unchanged(run, m, e, 'transpose()', engine, case)
    # the other way round on the same object: a transpose() that worked in place would poison the inverse() after it
    inv2 = mat_entries(m.inverse())
    if maxdiff(inv2, inv) != 0.0:
        run.violation('inverse() gives a different answer after transpose() was called on the same matrix', case=case, engine=engine,
                      key='method-mutates-matrix')
    for name in ('forward', 'left', 'up', 'copy'):
        getattr(m, name)()
        unchanged(run, m, e, name + '()', engine, case)
    run.count('inverse_checked')
    if maxdiff(tr, [list(r) for r in zip(*e)]) != 0.0:
        run.violation('transpose() is not the transpose', case=case, engine=engine, key='transpose-wrong')
    d = maxdiff(inv, tr)
    if d > 1e-9:
        run.violation(f'inverse() differs from transpose() by {d:.3g} on a rotation', witness={'inv': inv, 'tr': tr},
                      case=case, engine=engine, key='inverse-not-transpose')


def snap(obj) -> Any:
    from srctools.math import VecBase, AngleBase, MatrixBase
    if isinstance(obj, VecBase):
        return ('V', type(obj).__name__, obj.x, obj.y, obj.z)
    if isinstance(obj, AngleBase):
        return ('A', type(obj).__name__, obj.pitch, obj.yaw, obj.roll)
    if isinstance(obj, MatrixBase):
        return ('M', type(obj).__name__, mat_entries(obj))
    return ('T', tuple(obj))


def make_rot(kind: str, a):
    from srctools.math import Angle, FrozenAngle, Matrix, FrozenMatrix
    if all(float(x).is_integer() for x in a) and sum(map(abs, a)) % 2 == 1:
        a = tuple(int(x) for x in a)   # whole numbers are also given as ints (what code that builds angles from literals passes)
    return {'Angle': lambda: Angle(*a), 'FrozenAngle': lambda: FrozenAngle(*a),
            'Matrix': lambda: Matrix.from_angle(*a), 'FrozenMatrix': lambda: FrozenMatrix.from_angle(*a)}[kind]()


ROT_KINDS = ['Angle', 'FrozenAngle', 'Matrix', 'FrozenMatrix']


def law_operands(run, rng, a, b, v, engine, case) -> None:
    """Type matrix, in-place semantics, operand immutability, associativity and Vec@Angle == Vec@Matrix."""
    from srctools.math import Vec, FrozenVec, Angle, FrozenAngle, Matrix, FrozenMatrix, VecBase, AngleBase, MatrixBase
    ma, mb = model_matrix(*a), model_matrix(*b)
    mab = mmul(ma, mb)
    vmag = max(1.0, max(abs(x) for x in v))
    want_va = vmul(v, ma)
    want_vab = vmul(v, mab)
    hab = horiz(mab)
    for ka in ROT_KINDS:
        A = make_rot(ka, a)
        sa = snap(A)
        # --- vector @ rotation, all three vector forms and three operator forms
        for vk in ('Vec', 'FrozenVec', 'tuple'):
            V = Vec(*v) if vk == 'Vec' else FrozenVec(*v) if vk == 'FrozenVec' else tuple(v)
            sv = snap(V)
            res = V @ A
            run.count('operand_combos')
            want_type = FrozenVec if vk == 'FrozenVec' else Vec
            if type(res) is not want_type:
                run.violation(f'{vk} @ {ka} returned {type(res).__name__}, expected {want_type.__name__}', case=case,
                              engine=engine, key='matmul-result-type')
                continue
            if snap(V) != sv or snap(A) != sa:
                run.violation(f'{vk} @ {ka} changed an operand', witness={'before': [sv, sa], 'after': [snap(V), snap(A)]},
                              case=case, engine=engine, key='matmul-mutates-operand')
            got = (res.x, res.y, res.z)
            d = vdiff(got, want_va)
            if d > 1e-12 * vmag * 4 + 1e-15:
                # 4 = the three products and the sum; the law itself is stated at 1e-12*|v|
                run.violation(f'{vk} @ {ka} differs from the model by {d:.3g}', witness={'got': got, 'want': want_va},
                              case=case, engine=engine, key='vec-rot-wrong')
            # the result is a value of its own: working on it in place afterwards leaves both operands as they were
            # (so v, v @ A and (v @ A) @= B can be used side by side, as the associativity law does)
            if vk != 'tuple':
                later = V @ A
                later @= make_rot(ROT_KINDS[(ROT_KINDS.index(ka) + 1) % 4], b)
                run.count('results_edited_in_place')
                if snap(V) != sv or snap(A) != sa:
                    run.violation(f'editing the result of {vk} @ {ka} in place changed an operand of the product',
                                  witness={'before': [sv, sa], 'after': [snap(V), snap(A)]}, case=case, engine=engine,
                                  key='result-aliases-operand')
                    continue
            # the reflected operator invoked directly gives the same answer as the operator expression
            refl = type(A).__rmatmul__(A, V)
            if refl is not NotImplemented:
                run.count('reflected_direct_calls')
                if type(refl) is not want_type or vdiff((refl.x, refl.y, refl.z), got) > 1e-12 * vmag:
                    run.violation(f'{ka}.__rmatmul__({vk}) differs from {vk} @ {ka}', witness={'reflected': snap(refl), 'binary': got},
                                  case=case, engine=engine, key='reflected-differs')
                if snap(V) != sv or snap(A) != sa:
                    run.violation(f'{ka}.__rmatmul__({vk}) changed an operand', case=case, engine=engine, key='matmul-mutates-operand')
            # Vec @ Angle == Vec @ Matrix.from_angle(Angle)
            if ka in ('Angle', 'FrozenAngle'):
                via = V @ Matrix.from_angle(A)
                d2 = vdiff((via.x, via.y, via.z), got)
                if d2 > 1e-12 * vmag:
                    run.violation(f'{vk} @ {ka} != {vk} @ Matrix.from_angle({ka}) by {d2:.3g}', case=case, engine=engine,
                                  key='vec-angle-vs-matrix')
            # in-place form
            if vk != 'tuple':
                W = Vec(*v) if vk == 'Vec' else FrozenVec(*v)
                W0 = W
                W @= A
                if vk == 'Vec':
                    if W is not W0:
                        run.violation(f'Vec @= {ka} did not operate in place', case=case, engine=engine, key='imatmul-not-inplace')
                else:
                    if W is W0 or snap(W0) != sv:
                        run.violation(f'FrozenVec @= {ka} changed the frozen operand', case=case, engine=engine,
                                      key='frozen-mutated')
                if type(W) is not want_type or vdiff((W.x, W.y, W.z), got) > 1e-12 * vmag:
                    run.violation(f'{vk} @= {ka} differs from {vk} @ {ka}', witness={'inplace': snap(W), 'binary': got},
                                  case=case, engine=engine, key='imatmul-differs')
                if snap(A) != sa:
                    run.violation(f'{vk} @= {ka} changed the right operand', case=case, engine=engine, key='matmul-mutates-operand')
        # --- the same OBJECT on both sides: X @ X and X @= X are the rotation applied twice
        maa = mmul(ma, ma)
        X = make_rot(ka, a)
        sq = X @ X
        run.count('self_aliased_products')
        Xi = make_rot(ka, a)
        Xi0 = Xi
        Xi @= Xi
        for label, res in ((f'{ka} @ (the same object)', sq), (f'{ka} @= (itself)', Xi)):
            got_m = mat_entries(res) if isinstance(res, MatrixBase) else model_matrix(res.pitch, res.yaw, res.roll)
            tol = 4e-12 if isinstance(res, MatrixBase) else 1e-9 + (6 * horiz(maa) if horiz(maa) <= 0.001 else 0.0)
            if maxdiff(got_m, maa) > tol:
                run.violation(f'{label} differs from the rotation applied twice by {maxdiff(got_m, maa):.3g}', case=case, engine=engine,
                              key='self-aliased-product-wrong')
        if ka in ('FrozenAngle', 'FrozenMatrix') and snap(Xi0) != sa:
            run.violation(f'{ka} @= itself changed the frozen operand', case=case, engine=engine, key='frozen-mutated')
        # --- rotation @ rotation
        for kb in ROT_KINDS:
            B = make_rot(kb, b)
            sb = snap(B)
            C = A @ B
            run.count('operand_combos')
            if type(C) is not type(A):
                run.violation(f'{ka} @ {kb} returned {type(C).__name__}', case=case, engine=engine, key='matmul-result-type')
                continue
            if snap(A) != sa or snap(B) != sb:
                run.violation(f'{ka} @ {kb} changed an operand', witness={'before': [sa, sb], 'after': [snap(A), snap(B)]},
                              case=case, engine=engine, key='matmul-mutates-operand')
            later = A @ B
            later @= A
            run.count('results_edited_in_place')
            if snap(A) != sa or snap(B) != sb:
                run.violation(f'editing the result of {ka} @ {kb} in place changed an operand of the product',
                              witness={'before': [sa, sb], 'after': [snap(A), snap(B)]}, case=case, engine=engine,
                              key='result-aliases-operand')
                continue
            refl = type(B).__rmatmul__(B, A)
            if refl is not NotImplemented:
                run.count('reflected_direct_calls')
                s1, s2 = snap(refl), snap(C)
                # values only: for an Angle on the left Python never reaches this branch through `@`, and the class it
                # would pick for the result (the right operand's) is not something the statement speaks about
                same = s1[0] == s2[0] and (
                    maxdiff(s1[2], s2[2]) <= 1e-12 if s1[0] == 'M' else
                    max(min(abs(x - y), 360 - abs(x - y)) for x, y in zip(s1[2:], s2[2:])) <= 1e-9)
                if not same:
                    run.violation(f'{kb}.__rmatmul__({ka}) differs from {ka} @ {kb}', witness={'reflected': s1, 'binary': s2},
                                  case=case, engine=engine, key='reflected-differs')
                if snap(A) != sa or snap(B) != sb:
                    run.violation(f'{kb}.__rmatmul__({ka}) changed an operand', case=case, engine=engine, key='matmul-mutates-operand')
            # associativity: (v @ A) @ B vs v @ (A @ B)
            V = Vec(*v)
            left = (V @ A) @ B
            right = V @ C
            tol = 1e-9 * vmag
            angle_result = isinstance(C, AngleBase)
            if angle_result and hab <= 0.001:
                tol += 6 * hab * vmag
                run.count('assoc_through_gimbal')
            d = vdiff((left.x, left.y, left.z), (right.x, right.y, right.z))
            run.count('assoc_checked')
            if d > tol:
                run.violation(f'(v @ {ka}) @ {kb} differs from v @ ({ka} @ {kb}) by {d:.3g} (tolerance {tol:.3g})',
                              witness={'left': snap(left), 'right': snap(right), 'h_of_composed': hab}, case=case,
                              engine=engine, key='not-associative')
            d = vdiff((left.x, left.y, left.z), want_vab)
            if d > 1e-9 * vmag:
                run.violation(f'(v @ {ka}) @ {kb} differs from the composed model by {d:.3g}', case=case, engine=engine,
                              key='composition-wrong')
            # matrix results agree with the model entrywise
            if isinstance(C, MatrixBase):
                d = maxdiff(mat_entries(C), mab)
                if d > 1e-12 * 4:
                    run.violation(f'{ka} @ {kb} differs from the model product by {d:.3g}', case=case, engine=engine,
                                  key='mat-mul-wrong')
                elif ka == 'Matrix' and kb in ('Angle', 'FrozenMatrix'):
                    # a product (and its copies) is a rotation matrix like any other: the conversion laws hold for it too
                    import copy as _copy
                    import pickle as _pickle
                    for m2 in (C, C.copy(), _copy.deepcopy(C), _pickle.loads(_pickle.dumps(C)), C.freeze(), type(C)(C)):
                        e2 = mat_entries(m2)
                        law_to_angle(run, m2, e2, engine, case)
                        law_inverse(run, m2, e2, engine, case)
                    run.count('conversion_laws_on_products_and_copies')
            # in-place form of the left operand
            A2 = make_rot(ka, a)
            A20 = A2
            A2 @= B
            if ka in ('Angle', 'Matrix') and kb != 'FrozenMatrix' or (ka == 'Matrix'):
                # mutable left operands work in place (Angle @= FrozenMatrix is dispatched to the reflected operator)
                if A2 is not A20 and not (ka == 'Angle' and kb == 'FrozenMatrix'):
                    run.violation(f'{ka} @= {kb} did not operate in place', case=case, engine=engine, key='imatmul-not-inplace')
            if ka in ('FrozenAngle', 'FrozenMatrix'):
                if A2 is A20 or snap(A20) != sa:
                    run.violation(f'{ka} @= {kb} changed the frozen operand', case=case, engine=engine, key='frozen-mutated')
            if type(A2) is not type(C) or snap(A2) != snap(C):
                # identical arithmetic is expected, so compare with a tiny tolerance only
                s1, s2 = snap(A2), snap(C)
                close = s1[0] == s2[0] and s1[1] == s2[1] and (
                    maxdiff(s1[2], s2[2]) <= 1e-12 if s1[0] == 'M' else
                    max(min(abs(x - y), 360 - abs(x - y)) for x, y in zip(s1[2:], s2[2:])) <= 1e-9)
                if not close:
                    run.violation(f'{ka} @= {kb} differs from {ka} @ {kb}', witness={'inplace': s1, 'binary': s2},
                                  case=case, engine=engine, key='imatmul-differs')
            if snap(B) != sb:
                run.violation(f'{ka} @= {kb} changed the right operand', case=case, engine=engine, key='matmul-mutates-operand')


def law_entry_points(run, rng, a, b, v, engine, case) -> None:
    """The other public ways to build a matrix from Euler angles and to rotate a vector: each is the same rotation as the
    operator form (model: roll about X, then pitch about Y, then yaw about Z)."""
    import warnings
    from srctools.math import Vec, Angle, FrozenAngle, Matrix, FrozenMatrix, to_matrix
    ma, mb = model_matrix(*a), model_matrix(*b)
    vmag = max(1.0, max(abs(x) for x in v))
    ident = [[1.0, 0.0, 0.0], [0.0, 1.0, 0.0], [0.0, 0.0, 1.0]]

    def same(label: str, got, want, tol: float = 1e-12, key: str = 'entry-point-differs') -> None:
        run.count('entry_point_evaluations')
        d = max(abs(x - y) for r1, r2 in zip(got, want) for x, y in zip(r1, r2))
        if not d <= tol:
            run.violation(f'{label} differs from the model rotation by {d:.3g}', witness={'got': got, 'model': want}, case=case,
                          engine=engine, key=key)

    text = ' '.join(repr(float(x)) for x in a)
    for cls in (Matrix, FrozenMatrix):
        n = cls.__name__
        same(f'{n}.from_pitch', mat_entries(cls.from_pitch(a[0])), model_matrix(a[0], 0.0, 0.0))
        same(f'{n}.from_yaw', mat_entries(cls.from_yaw(a[1])), model_matrix(0.0, a[1], 0.0))
        same(f'{n}.from_roll', mat_entries(cls.from_roll(a[2])), model_matrix(0.0, 0.0, a[2]))
        same(f'{n}.from_angstr(text)', mat_entries(cls.from_angstr(text)), ma)
        same(f'{n}.from_angstr(unparsable text, defaults)', mat_entries(cls.from_angstr('not an angle', a[0], a[1], a[2])), ma)
        same(f'{n}.from_angstr(Angle)', mat_entries(cls.from_angstr(Angle(*a))), ma)
        # the three single-axis factors compose to the whole: roll first, then pitch, then yaw
        prod = cls.from_roll(a[2]) @ cls.from_pitch(a[0]) @ cls.from_yaw(a[1])
        same(f'{n}.from_roll @ from_pitch @ from_yaw', mat_entries(prod), ma, 4e-12)
    same('to_matrix(Angle)', mat_entries(to_matrix(Angle(*a))), ma)
    same('to_matrix(FrozenAngle)', mat_entries(to_matrix(FrozenAngle(*a))), ma)
    same('to_matrix(Vec of angles)', mat_entries(to_matrix(Vec(*a))), ma)
    same('to_matrix(tuple of angles)', mat_entries(to_matrix(tuple(a))), ma)
    same('to_matrix(None)', mat_entries(to_matrix(None)), ident, 0.0)
    for cls in (Matrix, FrozenMatrix):
        same(f'to_matrix({cls.__name__})', mat_entries(to_matrix(cls.from_angle(*a))), ma)
    want = vmul(v, ma)
    origin = gen_vec(rng)
    with warnings.catch_warnings():
        warnings.simplefilter('ignore')
        w = Vec(*v)
        ret = w.rotate(a[0], a[1], a[2], round_vals=False)
        if ret is not w:
            run.violation('Vec.rotate() did not return the vector it works on', case=case, engine=engine, key='entry-point-differs')
        same('Vec.rotate(p, y, r, round_vals=False)', [[w.x, w.y, w.z]], [list(want)], 4e-12 * vmag + 1e-15)
        w = Vec(*v)
        w.rotate(a[0], a[1], a[2])
        same('Vec.rotate(p, y, r) (rounded to 6 places)', [[w.x, w.y, w.z]], [list(want)], 5.1e-7 + 4e-12 * vmag)
        w = Vec(*v)
        w.rotate_by_str(text, round_vals=False)
        same('Vec.rotate_by_str(text, round_vals=False)', [[w.x, w.y, w.z]], [list(want)], 4e-12 * vmag + 1e-15)
    for label, rot in (('Angle', Angle(*a)), ('FrozenAngle', FrozenAngle(*a)), ('Matrix', Matrix.from_angle(*a)),
                       ('FrozenMatrix', FrozenMatrix.from_angle(*a)), ('None', None)):
        w = Vec(*v)
        w.localise(rng.choice((Vec(*origin), tuple(origin))), rot)
        base = want if rot is not None else v
        same(f'Vec.localise(origin, {label})', [[w.x, w.y, w.z]], [[base[i] + origin[i] for i in range(3)]],
             4e-12 * (vmag + max(abs(x) for x in origin)) + 1e-15)
    w = Vec(*v)
    with w.transform() as mat:
        mat @= Matrix.from_angle(*a)
        mat @= Angle(*b)
    same('Vec.transform() block', [[w.x, w.y, w.z]], [list(vmul(v, mmul(ma, mb)))], 1e-11 * vmag + 1e-15)
    ang = Angle(*a)
    with ang.transform() as mat:
        mat @= Matrix.from_angle(*b)
    mab = mmul(ma, mb)
    h = horiz(mab)
    same('Angle.transform() block', model_matrix(ang.pitch, ang.yaw, ang.roll), mab, 1e-9 if h > 0.001 else 2 * h + 1e-9)
    # history: one Angle object used as a rotation, changed in place (every way there is), used again: each use is the
    # rotation the object denotes NOW (nothing derived from an earlier state may be kept)
    live = Angle(*a)
    steps = [('first use', lambda: None), ('@= Angle', lambda: live.__imatmul__(Angle(*b))), ('yaw +=', lambda: setattr(live, 'yaw', live.yaw + 33.5)),
             ('*= 0.5', lambda: live.__imul__(0.5)), ('[0] =', lambda: live.__setitem__(0, 12.25)),
             ('transform()', lambda: _with_transform(live, Matrix.from_roll(40.0))), ('@= Matrix', lambda: live.__imatmul__(Matrix.from_angle(*b)))]
    for label, change in steps:
        res_change = change()
        now = model_matrix(live.pitch, live.yaw, live.roll)
        w2 = Vec(*v) @ live
        same(f'v @ (Angle after {label})', [[w2.x, w2.y, w2.z]], [list(vmul(v, now))], 4e-12 * vmag + 1e-15, key='stale-rotation-after-in-place-change')
        same(f'Matrix.from_angle(Angle after {label})', mat_entries(Matrix.from_angle(live)), now, 1e-12, key='stale-rotation-after-in-place-change')
    run.count('angles_reused_after_in_place_changes')


def _with_transform(ang, m) -> None:
    with ang.transform() as mat:
        mat @= m


def law_constructions(run, rng, engine, case_id) -> None:
    """from_basis / axis_angle are used as *generators* of rotation matrices for the to_angle and inverse laws.

    The property makes no claim about these constructors themselves, so nothing is asserted on them; a result
    that the harness cannot confirm to be a proper rotation (1e-9) is skipped and counted.
    """
    from srctools.math import Matrix, FrozenMatrix, Vec
    a = gen_angle(rng, rng.choice((0, 2)))
    m = model_matrix(*a)
    case = {'id': case_id, 'angle': a}
    x, y, z = (Vec(*m[0]), Vec(*m[1]), Vec(*m[2]))
    scale = rng.choice((1.0, 3.5, 1e-3, 1e4))
    mats = []
    for kw in ({'x': x * scale, 'y': y}, {'y': y, 'z': z * scale}, {'x': x, 'z': z}, {'x': x, 'y': y * scale, 'z': z},
               {'x': x}, {'y': y}, {'z': z}):
        mats.append(rng.choice((Matrix, FrozenMatrix)).from_basis(**kw))
    axis = gen_vec(rng)
    if max(abs(c) for c in axis) > 1e-3:
        mats.append(Matrix.axis_angle(Vec(*axis), rng.uniform(-720, 720)))
    for mat in mats:
        e = mat_entries(mat)
        ortho = maxdiff(mmul(e, [list(r) for r in zip(*e)]), [[1, 0, 0], [0, 1, 0], [0, 0, 1]])
        if ortho > 1e-9 or abs(det(e) - 1) > 1e-9:
            run.count('constructed_not_rotation_skipped')
            continue
        run.count('constructed_rotations')
        law_to_angle(run, mat, e, engine, case)
        law_inverse(run, mat, e, engine, case)


# ------------------------------------------------------------------ native engine
def native_engine(run) -> None:
    cxx = shutil.which('clang++-14') or shutil.which('clang++')
    src = os.path.join(bootstrap.REPO, 'src', 'srctools', '_math_matrix.cpp')
    if cxx is None or not os.path.exists(src):
        run.extra['native_sanitizer'] = 'unavailable (clang++ or _math_matrix.cpp missing): sub-engine inconclusive'
        return
    work = tempfile.mkdtemp(prefix='rv-c04-')
    try:
        res = {}
        for label, flags in (('scalar', []), ('sse2', ['-DUSE_SIMD', '-msse2'])):
            exe = os.path.join(work, 'drv_' + label)
            cmd = [cxx, '-O1', '-g', '-fsanitize=address,undefined', '-fno-sanitize-recover=all', *flags,
                   '-I', os.path.dirname(src), os.path.join(bootstrap.VERIF, 'native', 'mat3_driver.cpp'), src, '-o', exe]
            cp = subprocess.run(cmd, capture_output=True, text=True, timeout=300)
            if cp.returncode != 0:
                run.extra['native_sanitizer'] = f'build failed ({label}): {cp.stderr[-300:]}'
                return
            n = 400000 if run.tier == 'thorough' else 100000
            env = dict(os.environ, ASAN_OPTIONS='halt_on_error=1:abort_on_error=0:detect_leaks=1',
                       UBSAN_OPTIONS='halt_on_error=1:print_stacktrace=1')
            cp = subprocess.run([exe, str(n), str(run.seed)], capture_output=True, text=True, timeout=600, env=env)
            res[label] = cp.stdout.strip()
            run.count('native_matrices', n)
            if cp.returncode != 0:
                key = 'native-sanitizer-report' if ('Sanitizer' in cp.stderr or 'runtime error' in cp.stderr) else 'native-inverse-wrong'
                run.violation(f'mat3_inverse [{label}] failed: exit {cp.returncode}: {cp.stdout.strip()} {cp.stderr[-600:]}',
                              case={'native': label, 'n': n, 'seed': run.seed}, engine='native', key=key)
        run.extra['native_sanitizer'] = res
    finally:
        shutil.rmtree(work, ignore_errors=True)


def law_near_twins(run, rng, a, engine, case) -> None:
    """The same expressions evaluated back to back for two rotations that differ by less than the tolerance of Angle.__eq__ /
    FrozenAngle.__hash__ (1e-6 degrees): every result must be the rotation of ITS operand, whatever was computed before it.
    Vectors of magnitude 1e6 make a difference of 1e-9 degrees visible (1.7e-5 units against a tolerance of 4e-6)."""
    from srctools.math import Vec, FrozenVec, Matrix, FrozenMatrix, MatrixBase
    delta = tuple(rng.choice((-1, 1)) * rng.choice((1e-9, 1e-8, 2e-7, 4e-7, 9e-7)) if rng.random() < 0.8 else 0.0 for _ in range(3))
    if not any(delta):
        delta = (0.0, 4e-7, 0.0)
    twin = tuple(x + d for x, d in zip(a, delta))
    v = tuple(rng.uniform(-1e6, 1e6) for _ in range(3))
    vmag = max(abs(x) for x in v)
    case = dict(case, twin=twin, big_v=v)
    b = gen_angle(rng, 0)
    mb = model_matrix(*b)
    order = [a, twin] if rng.random() < 0.5 else [twin, a]
    for ka in ROT_KINDS:
        for vk in ('Vec', 'FrozenVec', 'tuple'):
            for ang in order:
                want = vmul(v, model_matrix(*ang))
                A = make_rot(ka, ang)
                V = Vec(*v) if vk == 'Vec' else FrozenVec(*v) if vk == 'FrozenVec' else tuple(v)
                res = V @ A
                run.count('near_twin_evaluations')
                d = vdiff((res.x, res.y, res.z), want)
                if d > 1e-12 * vmag * 4 + 1e-15:
                    run.violation(f'{vk} @ {ka} is off by {d:.3g} when a rotation {max(map(abs, delta)):.0e} degrees away was used just before',
                                  witness={'got': (res.x, res.y, res.z), 'want': want}, case=case, engine=engine,
                                  key='result-depends-on-earlier-near-equal-operand')
                if vk != 'tuple':
                    W = Vec(*v) if vk == 'Vec' else FrozenVec(*v)
                    W @= A
                    d = vdiff((W.x, W.y, W.z), want)
                    if d > 1e-12 * vmag * 4 + 1e-15:
                        run.violation(f'{vk} @= {ka} is off by {d:.3g} when a rotation {max(map(abs, delta)):.0e} degrees away was used just before',
                                      case=case, engine=engine, key='result-depends-on-earlier-near-equal-operand')
        for ang in order:
            A = make_rot(ka, ang)
            ma = model_matrix(*ang)
            # matrix built from the rotation object, and rotation @ rotation / reflected forms with a fixed partner
            got = mat_entries(Matrix.from_angle(A) if ka.endswith('Angle') else A)
            if maxdiff(got, ma) > 4e-12:
                run.violation(f'Matrix.from_angle({ka}) is off by {maxdiff(got, ma):.3g} after a near-equal angle was converted',
                              case=case, engine=engine, key='result-depends-on-earlier-near-equal-operand')
            for kb in ('Matrix', 'FrozenMatrix'):
                B = make_rot(kb, b)
                for label, C, want in ((f'{ka} @ {kb}', A @ B, mmul(ma, mb)), (f'{kb} @ {ka}', B @ A, mmul(mb, ma))):
                    if isinstance(C, MatrixBase):
                        run.count('near_twin_evaluations')
                        if maxdiff(mat_entries(C), want) > 4e-12:
                            run.violation(f'{label} is off by {maxdiff(mat_entries(C), want):.3g} after the same expression on a near-equal operand',
                                          case=case, engine=engine, key='result-depends-on-earlier-near-equal-operand')


def one_case(run, rng, i, engine) -> None:
    kind = (0, 4, 1, 2, 4, 3, 0, 2, 4)[i % 9]
    a = gen_angle(rng, kind)
    b = gen_angle(rng, rng.choice((0, 1, 2, 4)))
    v = gen_vec(rng)
    case = {'id': i, 'a': a, 'b': b, 'v': v}
    for m, e in law_matrix(run, a, engine, case):  # the mutable and the frozen class
        law_to_angle(run, m, e, engine, case)
        law_inverse(run, m, e, engine, case)
    if i % 3 == 0 or i % 9 in (1, 5):   # general and gimbal operands, plus single-axis/identity and nearly-zero ones
        law_operands(run, rng, a, b, v, engine, case)
    if i % 5 == 0:
        law_constructions(run, rng, engine, i)
    if i % 4 == 2:
        law_entry_points(run, rng, a, b, v, engine, case)
    if i % 4 == 1:
        law_near_twins(run, rng, a, engine, case)
    run.case([a, b, v], nontrivial_angle(a), sample=case if i < 3 else None, tag=engine)


def main(run, shard=(0, 1)) -> None:
    import srctools.math as sm
    probe = ReachProbe({
        'MatrixBase.from_angle': (sm, 'MatrixBase.from_angle'), 'MatrixBase._to_angle': (sm, 'MatrixBase._to_angle'),
        'MatrixBase._mat_mul': (sm, 'MatrixBase._mat_mul'), 'MatrixBase._vec_rot': (sm, 'MatrixBase._vec_rot'),
        'MatrixBase.inverse': (sm, 'MatrixBase.inverse'), 'VecBase.__matmul__': (sm, 'VecBase.__matmul__'),
        'Vec.__imatmul__': (sm, 'Vec.__imatmul__'), 'MatrixBase.__rmatmul__': (sm, 'MatrixBase.__rmatmul__'),
        'AngleBase.__rmatmul__': (sm, 'AngleBase.__rmatmul__'), 'Angle.__imatmul__': (sm, 'Angle.__imatmul__'),
    })
    probe.start()
    thorough = run.tier == 'thorough'
    n = 1500000 if thorough else 6000
    for i in range(n):
        if mine(i, shard):
            one_case(run, sub_rng(run.seed, 'alg', i), i, 'algebra')
    # grid of multiples of 15 degrees
    idx = 0
    evals = 0
    for p in range(24):
        for y in range(24):
            for r in range(24):
                idx += 1
                if not mine(idx, shard):
                    continue
                if not thorough and (idx + run.seed) % 3:
                    continue
                a = (15.0 * p, 15.0 * y, 15.0 * r)
                case = {'grid': a}
                for m, e in law_matrix(run, a, 'grid15', case):
                    law_to_angle(run, m, e, 'grid15', case)
                    law_inverse(run, m, e, 'grid15', case)
                evals += 1
    run.case_bulk(evals, 0)
    run.count('grid15_angles', evals)
    probe.report(run)
    probe.check_reached(run)
    if shard[0] == 0:
        native_engine(run)
    run.require('self_aliased_products', 'results_edited_in_place', 'entry_point_evaluations', 'conversion_laws_on_products_and_copies', 'angles_reused_after_in_place_changes', 'assoc_through_gimbal', 'near_twin_evaluations', 'reflected_direct_calls', 'from_angle_checked', 'to_angle_roundtrips', 'to_angle_gimbal_branch', 'operand_combos', 'assoc_checked',
                'inverse_checked', 'constructed_rotations')


def replay(run, data) -> None:
    case = data['case']
    if 'native' in case:
        native_engine(run)
    elif 'grid' in case:
        a = tuple(case['grid'])
        for m, e in law_matrix(run, a, 'replay', case):
            law_to_angle(run, m, e, 'replay', case)
            law_inverse(run, m, e, 'replay', case)
    elif 'a' in case:
        a, b, v = tuple(case['a']), tuple(case['b']), tuple(case['v'])
        for m, e in law_matrix(run, a, 'replay', case):
            law_to_angle(run, m, e, 'replay', case)
            law_inverse(run, m, e, 'replay', case)
        law_operands(run, sub_rng(0, 'replay', 0), a, b, v, 'replay', case)
    else:
        law_constructions(run, sub_rng(run.seed, 'alg', case['id']), 'replay', case['id'])
    run.case(case, True, sample=case, tag='replay')
    run.case('pad', True)


# (kept at the end of the file so that the text above stays the description the check was first built to)
RULE += ' ' + 'Later additions: results of every product are edited in place and both operands re-checked; operand laws also on identity / single-axis / nearly-zero rotations and on integer operands; from_pitch/yaw/roll, from_angstr, to_matrix, Vec.rotate / rotate_by_str / localise / transform and Angle.transform against the model; conversion laws on products, copies, pickles and frozen twins.'
