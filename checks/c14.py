"""C14 DMX export/parse preserves the element graph in binary and KeyValues2 form (+ the Keyvalues bridge)."""
from __future__ import annotations

import io
import tempfile
import math
import re
import struct
import traceback
from typing import Any, Dict, List, Optional, Tuple
from uuid import UUID

from rv.util import mine, sub_rng
from rv.probes import ReachProbe
from rv import gen_dmx
from rv.gen_dmx import TYPES, NEED_ESCAPE

PROP = 'C14'
LEVEL = 'exploration'
RULE = (
    'Engine "graph": seeded element graphs (1-9 elements, thorough also 5-40; every element reachable from the root) with a '
    'spanning tree plus extra edges giving DAG sharing, back edges, self loops, mutual pairs, NULL references (scalar and '
    'inside arrays), stub references (fresh and repeated UUIDs) and empty element arrays; 0-8 value attributes per element '
    'over every member of ValueType as scalar and as array (length 0,1,2,3,7), attribute order shuffled. Numbers are '
    'pre-rounded to the wire type so "exact in binary" applies to all of them: int32; float32 (incl. -0.0, denormals, '
    'FLT_MAX, 2^24, and in 25% of graphs inf/nan for FLOAT/VEC2/VEC4/QUATERNION); colour bytes; TIME as an int32 count of '
    '1/10000 s; ANGLE components float32 in [0,360) (FrozenAngle normalises anything else on construction); MATRIX nine '
    'float32 (only the 3x3 part exists in FrozenMatrix). Strings/names come from a pool weighted towards the escape set '
    '(" \\ \' \\n \\t \\r \\v \\b \\f \\a), structure characters, controls, BOM and astral code points; attribute names use mixed '
    'case, reserved-looking words (id, value, subkeys, element, int) and characters needing escapes. Each graph is exported '
    'with Element.export_binary versions 1-5 and Element.export_kv2 nested/flat x cull_uuid under one unicode mode '
    '(one graph in six and all fixed graphs: under all three of ascii/format/silent), parsed back with Element.parse and '
    'compared to a snapshot taken before export by a harness walker that numbers elements by object identity in '
    'attribute order (so sharing, cycles, NULL/stub identity, attribute order, original-case names, ValueType, '
    'scalar/array shape and UUIDs are all compared; UUIDs of non-stub elements are ignored only under cull_uuid, where '
    'the identity walk is the bijection). Binary compares values exactly; text compares FLOAT/VECn/QUATERNION to 5e-7 (+4 ulp) '
    'absolute, ANGLE to 5e-7 circular, everything else exactly. Every binary stream is additionally decoded by an '
    'independent harness decoder written from the Valve format (it localises a fault to writer or reader and must agree '
    'with the snapshot). Engine "fixed": 14 hand-written minimal graphs, one per feature. Engine "kv1": seeded Keyvalues '
    'trees (root/block/leaf roots, duplicate and case-variant names, the reserved names name/subkeys, mixed leaf+block '
    'children, empty blocks) through Element.from_kv1 -> to_kv1 directly and through one random wire encoding, compared by '
    'real_name/value/order. NOT generated, because the format cannot carry it: NUL inside any string for binary '
    '(NUL-terminated strings; 8% of graphs carry NUL in values/element names and are sent to text only); NUL in attribute '
    'and type names; lone surrogates (not encodable as UTF-8); non-ASCII text under unicode="ascii" (the documented '
    'behaviour there is a UnicodeError, which is checked instead); TIME attributes for binary < 3 (documented ValueError, '
    'checked); element type names whose casefold is a value-type keyword, <keyword>_array, "element" or "elementid" '
    '(KeyValues2 uses that slot for the attribute type); attribute names casefolding to "name" (that key IS the element '
    'name); two attribute names with equal casefold in one element (the mapping is case-insensitive); stub UUIDs equal '
    'to a real element UUID and two distinct elements with one UUID (UUID is the identity on the wire); a non-STRING or '
    'deleted "name" attribute; fmt_name with whitespace/non-ASCII (header grammar); an all-zero element UUID (that is '
    'NULL); graphs of more than 40 elements (nested KeyValues2 export/parse recurse per inlined element). Non-trivial = the graph has sharing, '
    'a cycle, a stub/NULL or an array (kv1: >= 2 nodes); distinct = distinct spec content.')
ASSUMPTIONS = ['pure-Python tokenizer and math classes', 'ValueType has the 14 members of this tree (the statement says 15; '
               'every member present is covered, a new member makes the run inconclusive)',
               'the independent binary decoder follows Valve dmserializers (scalar codes 1-14, arrays +14, -1 NULL, '
               '-2 + UUID string for external elements)',
               'KeyValues2 output is only checked through the library reader (no independent text decoder)']
JOBS = {'quick': 4, 'thorough': 16}

TOL = 5e-7
SUFFIX = {'ELEMENT': 'elem', 'INT': 'int', 'FLOAT': 'float', 'BOOL': 'bool', 'STRING': 'str', 'BINARY': 'bin',
          'TIME': 'time', 'COLOR': 'color', 'VEC2': 'vec2', 'VEC3': 'vec3', 'VEC4': 'vec4', 'ANGLE': 'ang',
          'QUATERNION': 'quat', 'MATRIX': 'mat'}
MODES = ['ascii', 'format', 'silent']
FMT_NAMES = [('dmx', 1), ('model', 18), ('pcf', 2), ('x-y.z', 0), ('sfm_session', 22), ('long_' + 'x' * 290, 2147483647)]
_ESC = {'\n': '\\n', '\t': '\\t', '\v': '\\v', '\b': '\\b', '\r': '\\r', '\f': '\\f', '\a': '\\a', '\\': '\\\\',
        '"': '\\"', "'": "\\'"}


def h_escape(text: str) -> str:
    """Harness-side statement of what the KeyValues2 tokenizer needs escaped."""
    return ''.join(_ESC.get(c, c) for c in text)


# ------------------------------------------------------------------------------------------------ build
def build(spec: Dict[str, Any]) -> Any:
    """Create the real Element graph from a spec through the public constructors."""
    from srctools import dmx
    from srctools.math import FrozenVec, FrozenAngle, Matrix
    elems = [dmx.Element(e['name'], e['type'], UUID(hex=e['uuid'])) for e in spec['elems']]
    stubs: Dict[str, Any] = {}

    def conv(typ: str, v: Any) -> Any:
        if typ == 'ELEMENT':
            if v is None:
                return dmx.NULL
            if isinstance(v, str):
                if v not in stubs:
                    stubs[v] = dmx.StubElement.stub(UUID(hex=v[2:]))
                return stubs[v]
            return elems[v]
        if typ in ('INT', 'FLOAT', 'BOOL', 'STRING'):
            return v
        if typ == 'BINARY':
            return bytes.fromhex(v)
        if typ == 'TIME':
            return dmx.Time(v / 10000.0)
        if typ == 'COLOR':
            return dmx.Color(*v)
        if typ == 'VEC2':
            return dmx.Vec2(*v)
        if typ == 'VEC3':
            return FrozenVec(*v)
        if typ == 'VEC4':
            return dmx.Vec4(*v)
        if typ == 'ANGLE':
            return FrozenAngle(*v)
        if typ == 'QUATERNION':
            return dmx.Quaternion(*v)
        if typ == 'MATRIX':
            m = Matrix()
            for i in range(3):
                for j in range(3):
                    m[i, j] = v[i * 3 + j]
            return m.freeze()
        raise AssertionError(typ)

    for e, el in zip(spec['elems'], elems):
        for name, typ, is_arr, val in e['attrs']:
            vt = dmx.ValueType[typ]
            way = (len(name) + len(e['attrs'])) % 4   # the public ways to arrive at the same attribute, rotated
            if is_arr:
                items = [conv(typ, x) for x in val]
                if way == 3 and typ != 'TIME':   # (append() deduces the type of what it is given, and cannot deduce Time)
                    # an empty array filled afterwards through the array mutators
                    attr = dmx.Attribute.array(name, vt)
                    half = len(items) // 2
                    for it in items[:half]:
                        attr.append(it)
                    attr.extend(iter(items[half:]))
                    if items:
                        attr.append(items[0])      # one too many, taken out again ...
                        del attr[len(items)]
                        attr[0] = items[0]         # ... and an item assigned over itself
                    el[name] = attr
                else:
                    # the array constructor takes any iterable: a list, a tuple, or an iterator that can be consumed only once
                    arg = items if way == 0 else tuple(items) if way == 1 else iter(items)
                    el[name] = dmx.Attribute.array(name, vt, arg)
            elif typ == 'TIME':
                el[name] = dmx.Attribute.time(name, conv(typ, val))
            elif way == 1 and typ in ('INT', 'FLOAT', 'BOOL', 'STRING', 'BINARY'):
                # the typed constructor, under a throw-away name: Element.__setitem__ renames the attribute it is given
                el[name] = getattr(dmx.Attribute, {'INT': 'int', 'FLOAT': 'float', 'BOOL': 'bool', 'STRING': 'string', 'BINARY': 'binary'}[typ])(
                    'placeholder name', conv(typ, val))
            elif way == 2 and typ in ('VEC2', 'VEC3', 'VEC4', 'COLOR', 'ANGLE', 'QUATERNION'):
                ctor = getattr(dmx.Attribute, typ.lower())
                el[name] = ctor(name, *val) if len(name) % 2 else ctor(name, iter(val))
            else:
                el[name] = conv(typ, val)  # type deduced by Element.__setitem__
    for e, el in zip(spec['elems'], elems):
        if e.get('nameless'):
            del el['name']  # the state Element.clear() leaves behind; el.name reads ''
    return elems[0]


# ------------------------------------------------------------------------------------------------ snapshot
def _bad(v: Any) -> List[Any]:
    return ['BADTYPE', type(v).__name__, repr(v)[:80]]


def _plain(typ: str, v: Any, dmx: Any, m: Any) -> Any:
    if typ == 'INT':
        return v if type(v) is int else _bad(v)
    if typ == 'FLOAT':
        return v if type(v) is float else _bad(v)
    if typ == 'BOOL':
        return v if type(v) is bool else _bad(v)
    if typ == 'STRING':
        return v if type(v) is str else _bad(v)
    if typ == 'BINARY':
        return v.hex() if type(v) is bytes else _bad(v)
    if typ == 'TIME':
        return float(v.value) if isinstance(v, dmx.Time) else _bad(v)
    if typ == 'COLOR':
        return [v.r, v.g, v.b, v.a] if isinstance(v, dmx.Color) else _bad(v)
    if typ == 'VEC2':
        return [float(c) for c in v] if isinstance(v, dmx.Vec2) else _bad(v)
    if typ == 'VEC4':
        return [float(c) for c in v] if isinstance(v, dmx.Vec4) else _bad(v)
    if typ == 'QUATERNION':
        return [float(c) for c in v] if isinstance(v, dmx.Quaternion) else _bad(v)
    if typ == 'VEC3':
        return [float(v.x), float(v.y), float(v.z)] if isinstance(v, m.FrozenVec) else _bad(v)
    if typ == 'ANGLE':
        return [float(v.pitch), float(v.yaw), float(v.roll)] if isinstance(v, m.FrozenAngle) else _bad(v)
    if typ == 'MATRIX':
        return [float(v[i, j]) for i in range(3) for j in range(3)] if isinstance(v, m.FrozenMatrix) else _bad(v)
    raise AssertionError(typ)


def snapshot(root: Any) -> List[Dict[str, Any]]:
    """Canonical form of an Element graph: elements numbered by object identity in attribute (BFS) order."""
    from srctools import dmx
    import srctools.math as m
    index = {id(root): 0}
    order = [root]
    nodes: List[Dict[str, Any]] = []
    seen_uuid: Dict[str, int] = {}
    for el in order:  # grows while iterating
        node: Dict[str, Any] = {'type': str(el.type) if type(el.type) is str else _bad(el.type), 'name': el.name,
                                'uuid': el.uuid.hex, 'attrs': []}
        if node['uuid'] in seen_uuid:
            node['anomaly'] = f'uuid also carried by element #{seen_uuid[node["uuid"]]}'
        seen_uuid[node['uuid']] = len(nodes)
        for key, attr in el.items():
            if key == 'name':
                continue
            typ = 'INT' if attr.type.name == 'INTEGER' else attr.type.name
            if attr.name.casefold() != key:
                node['anomaly'] = f'attribute {attr.name!r} stored under key {key!r}'
            is_arr = bool(attr.is_array)
            raw = list(getattr(attr, 'iter_' + SUFFIX[typ])()) if is_arr else [getattr(attr, 'val_' + SUFFIX[typ])]
            vals: List[Any] = []
            for v in raw:
                if typ == 'ELEMENT':
                    if not isinstance(v, dmx.Element):
                        vals.append(_bad(v))
                    elif v.is_null:
                        vals.append(['N'])
                    elif v.is_stub:
                        vals.append(['S', v.uuid.hex])
                    else:
                        if id(v) not in index:
                            index[id(v)] = len(order)
                            order.append(v)
                        vals.append(['E', index[id(v)]])
                else:
                    vals.append(_plain(typ, v, dmx, m))
            node['attrs'].append([attr.name, typ, is_arr, vals])
        nodes.append(node)
    return nodes


def canon(nodes: List[Dict[str, Any]]) -> Tuple[List[Dict[str, Any]], int]:
    """Renumber file-order nodes in the same attribute-order BFS as snapshot(); also return the unreachable count."""
    order = [0]
    idx = {0: 0}
    for old in order:
        for a in nodes[old]['attrs']:
            if a[1] == 'ELEMENT':
                for v in a[3]:
                    if v[0] == 'E' and v[1] not in idx:
                        idx[v[1]] = len(order)
                        order.append(v[1])
    out = []
    for old in order:
        n = nodes[old]
        attrs = [[a[0], a[1], a[2], [(['E', idx[v[1]]] if (a[1] == 'ELEMENT' and v[0] == 'E') else v) for v in a[3]]]
                 for a in n['attrs']]
        out.append({'type': n['type'], 'name': n['name'], 'uuid': n['uuid'], 'attrs': attrs})
    return out, len(nodes) - len(order)


# ------------------------------------------------------------------------------------------------ comparer
def _feq(a: Any, b: Any, exact: bool) -> bool:
    if not isinstance(a, float) or not isinstance(b, float):
        return a == b
    if a != a or b != b:
        return a != a and b != b
    if exact or a in (float('inf'), float('-inf')) or b in (float('inf'), float('-inf')):
        return a == b
    # '%.6f' is off by at most 0.5e-6; re-reading the decimal and subtracting add a few ulps of the value itself
    return abs(a - b) <= TOL + 4 * math.ulp(max(abs(a), abs(b)))


def _same(typ: str, a: Any, b: Any, exact: bool) -> bool:
    if isinstance(a, list) and a[:1] == ['BADTYPE'] or isinstance(b, list) and b[:1] == ['BADTYPE']:
        return False
    if typ in ('ELEMENT', 'COLOR', 'STRING', 'BINARY'):
        return a == b
    if typ in ('INT', 'BOOL'):
        return type(a) is type(b) and a == b
    if typ == 'TIME':
        return _feq(a, b, True)
    if typ == 'FLOAT':
        return _feq(a, b, exact)
    if typ == 'MATRIX':
        return len(a) == len(b) and all(_feq(x, y, True) for x, y in zip(a, b))
    if typ == 'ANGLE' and not exact:
        if len(a) != len(b):
            return False
        for x, y in zip(a, b):
            d = abs(x - y) % 360.0
            if min(d, 360.0 - d) > TOL + 4 * math.ulp(360.0):
                return False
        return True
    return len(a) == len(b) and all(_feq(x, y, exact) for x, y in zip(a, b))


def diff_nodes(exp: List[Dict[str, Any]], got: List[Dict[str, Any]], exact: bool, uuids: bool,
               stub_uuids: bool = True) -> Optional[Dict[str, Any]]:
    """First difference between two canonical graphs, or None."""
    for i, (a, b) in enumerate(zip(exp, got)):
        path = f'#{i}'
        if 'anomaly' in b and 'anomaly' not in a:
            return {'path': path, 'field': 'anomaly', 'want': None, 'got': b['anomaly']}
        for fld in ('type', 'name') + (('uuid',) if uuids else ()):
            if a[fld] != b[fld]:
                return {'path': path, 'field': fld, 'want': a[fld], 'got': b[fld]}
        for k, (x, y) in enumerate(zip(a['attrs'], b['attrs'])):
            ap = f'{path}.attr[{k}]'
            base = {'attr_name': x[0], 'attr_type': x[1], 'attr_is_array': x[2]}
            if x[0] != y[0]:
                return dict(base, path=ap, field='attr-name', want=x[0], got=y[0])
            if x[1] != y[1]:
                return dict(base, path=ap, field='attr-type', want=x[1], got=y[1])
            if x[2] != y[2]:
                return dict(base, path=ap, field='attr-shape', want='array' if x[2] else 'scalar',
                            got='array' if y[2] else 'scalar')
            if len(x[3]) != len(y[3]):
                return dict(base, path=ap, field='array-length', want=len(x[3]), got=len(y[3]))
            for j, (u, v) in enumerate(zip(x[3], y[3])):
                if x[1] == 'ELEMENT' and not stub_uuids and u[0] == 'S' and v[0] == 'S':
                    continue
                if not _same(x[1], u, v, exact):
                    fld = 'value'
                    if x[1] == 'ELEMENT':
                        fld = 'stub-uuid' if (u[0] == 'S' and v[0] == 'S') else 'reference'
                    return dict(base, path=f'{ap}[{j}]', field=fld, want=u, got=v)
        if len(a['attrs']) != len(b['attrs']):
            return {'path': path, 'field': 'attr-count', 'want': [x[0] for x in a['attrs']], 'got': [y[0] for y in b['attrs']]}
    if len(exp) != len(got):
        return {'path': '', 'field': 'element-count', 'want': len(exp), 'got': len(got)}
    return None


# ------------------------------------------------------------------------------------------------ independent binary decoder
class DecodeError(Exception):
    pass


class _Rd:
    def __init__(self, data: bytes, pos: int) -> None:
        self.data = data
        self.pos = pos

    def take(self, n: int) -> bytes:
        if n < 0 or self.pos + n > len(self.data):
            raise DecodeError(f'need {n} bytes at {self.pos}, stream has {len(self.data)}')
        out = self.data[self.pos:self.pos + n]
        self.pos += n
        return out

    def unpack(self, fmt: str) -> Tuple[Any, ...]:
        return struct.unpack(fmt, self.take(struct.calcsize(fmt)))

    def cstr(self) -> str:
        end = self.data.find(b'\0', self.pos)
        if end < 0:
            raise DecodeError(f'unterminated string at {self.pos}')
        raw = self.data[self.pos:end]
        self.pos = end + 1
        try:
            return raw.decode('utf8')
        except UnicodeDecodeError as exc:
            raise DecodeError(f'string at {self.pos} is not UTF-8: {exc}') from None


_BIN_HEADER = re.compile(rb'<!-- dmx encoding (unicode_)?binary ([0-9]+) format (\S+) ([0-9]+) -->\n\x00')
_FLOATS = {'VEC2': 2, 'VEC3': 3, 'VEC4': 4, 'ANGLE': 3, 'QUATERNION': 4}


def decode_bin(data: bytes, stub_uuid: bool = True) -> Tuple[List[Dict[str, Any]], Dict[str, Any]]:
    """Decode a binary DMX stream without any srctools code. Returns file-order nodes and facts about the stream."""
    mt = _BIN_HEADER.match(data)
    if mt is None:
        raise DecodeError('header')
    version = int(mt.group(2))
    facts: Dict[str, Any] = {'version': version, 'unicode_header': bool(mt.group(1)), 'fmt': [mt.group(3).decode('ascii'), int(mt.group(4))],
                             'codes': set(), 'stub_refs': 0, 'scalar_code_14': 0}
    r = _Rd(data, mt.end())
    if version >= 5:
        cnt_fmt, ind_fmt = '<i', '<i'
    elif version >= 4:
        cnt_fmt, ind_fmt = '<i', '<h'
    elif version >= 2:
        cnt_fmt, ind_fmt = '<h', '<h'
    else:
        cnt_fmt = ind_fmt = ''
    strings: Optional[List[str]] = None
    if cnt_fmt:
        [n] = r.unpack(cnt_fmt)
        strings = [r.cstr() for _ in range(n)]
        if strings != sorted(set(strings)):
            facts['string_table_unsorted_or_dup'] = True

    def sref() -> str:
        assert strings is not None
        [i] = r.unpack(ind_fmt)
        if not 0 <= i < len(strings):
            raise DecodeError(f'string index {i} outside table of {len(strings)}')
        return strings[i]

    [nel] = r.unpack('<i')
    if not 0 < nel <= len(data):
        raise DecodeError(f'element count {nel}')
    nodes: List[Dict[str, Any]] = []
    for _ in range(nel):
        typ = sref() if strings is not None else r.cstr()
        name = sref() if version >= 4 else r.cstr()
        nodes.append({'type': typ, 'name': name, 'uuid': UUID(bytes_le=r.take(16)).hex, 'attrs': []})
    for node in nodes:
        [na] = r.unpack('<i')
        if not 0 <= na <= len(data):
            raise DecodeError(f'attribute count {na}')
        for _ in range(na):
            aname = sref() if strings is not None else r.cstr()
            [code] = r.unpack('<B')
            facts['codes'].add(code)
            if 1 <= code <= 14:
                is_arr, count = False, 1
                if code == 14:
                    facts['scalar_code_14'] += 1
            elif 15 <= code <= 28:
                is_arr = True
                code -= 14
                [count] = r.unpack('<i')
                if not 0 <= count <= len(data):
                    raise DecodeError(f'array length {count}')
            else:
                raise DecodeError(f'attribute type code {code}')
            typ = TYPES[code - 1]
            vals: List[Any] = []
            for _ in range(count):
                if typ == 'ELEMENT':
                    [i] = r.unpack('<i')
                    if i == -1:
                        vals.append(['N'])
                    elif i == -2:
                        facts['stub_refs'] += 1
                        if stub_uuid:
                            s = r.cstr()
                            try:
                                vals.append(['S', UUID(s).hex])
                            except ValueError:
                                raise DecodeError(f'external element reference followed by {s[:40]!r}, not a UUID string') from None
                        else:
                            vals.append(['S', None])
                    elif 0 <= i < nel:
                        vals.append(['E', i])
                    else:
                        raise DecodeError(f'element index {i} of {nel}')
                elif typ == 'STRING':
                    vals.append(sref() if (version >= 4 and not is_arr) else r.cstr())
                elif typ == 'BINARY':
                    [n] = r.unpack('<i')
                    vals.append(r.take(n).hex())
                elif typ == 'INT':
                    vals.append(r.unpack('<i')[0])
                elif typ == 'FLOAT':
                    vals.append(r.unpack('<f')[0])
                elif typ == 'BOOL':
                    [b] = r.unpack('<B')
                    if b > 1:
                        raise DecodeError(f'bool byte {b}')
                    vals.append(bool(b))
                elif typ == 'TIME':
                    if version < 3:
                        raise DecodeError('type code 7 is not TIME before version 3')
                    vals.append(r.unpack('<i')[0] / 10000.0)
                elif typ == 'COLOR':
                    vals.append(list(r.unpack('<4B')))
                elif typ == 'MATRIX':
                    f = r.unpack('<16f')
                    if (f[3], f[7], f[11]) != (0.0, 0.0, 0.0) or f[12:] != (0.0, 0.0, 0.0, 1.0):
                        facts['matrix_pad_nonstandard'] = True
                    vals.append(list(f[0:3] + f[4:7] + f[8:11]))
                else:
                    vals.append(list(r.unpack(f'<{_FLOATS[typ]}f')))
            node['attrs'].append([aname, typ, is_arr, vals])
    if r.pos != len(data):
        raise DecodeError(f'{len(data) - r.pos} trailing bytes')
    facts['non_ascii_type'] = sorted({n['type'] for n in nodes if not n['type'].isascii()})
    facts['non_ascii_string_array'] = sorted({s for n in nodes for a in n['attrs'] if a[1] == 'STRING' and a[2]
                                              for s in a[3] if not s.isascii()})
    facts['codes'] = sorted(facts['codes'])
    return nodes, facts


# ------------------------------------------------------------------------------------------------ classifier
def classify_binary(stage: str, exc: Optional[BaseException], diff: Optional[Dict[str, Any]], w: Dict[str, Any]) -> str:
    """Mechanism from the witness: what the stream contains (independent decoder) and how the library reacted."""
    spec_ok = w.get('decode_spec') == 'agrees'
    if w.get('stub_refs', 0) and not spec_ok and w.get('decode_without_stub_uuid') == 'agrees':
        return 'binary-stub-no-uuid'  # the writer's stream only decodes when no UUID string follows -2
    if stage == 'parse' and spec_ok:
        if isinstance(exc, UnicodeDecodeError) and exc.encoding == 'ascii' and (w.get('unicode_header') or w.get('parse_unicode_flag')):
            # which of the stream's strings was being decoded as ASCII (element table precedes the attributes)
            failed = bytes(exc.object).decode('utf8', 'replace')
            if w.get('version') == 1 and failed in w.get('non_ascii_type', ()):
                return 'binary-v1-type-ascii'
            if failed in w.get('non_ascii_string_array', ()):
                return 'binary-array-string-ascii'
            return 'binary-string-ascii-other'
        if isinstance(exc, KeyError) and exc.args == (0,) and w.get('scalar_code_14'):
            return 'scalar-matrix-code-14'
    if stage == 'compare' and spec_ok and diff is not None and diff.get('attr_type') == 'MATRIX' and not diff.get('attr_is_array') \
            and w.get('scalar_code_14') and diff['field'] in ('attr-type', 'attr-shape', 'array-length', 'value'):
        return 'scalar-matrix-code-14'
    if stage == 'decode':
        return 'binary-stream-independent-decode'
    return {'export': 'binary-export-raises', 'parse': 'binary-parse-raises'}.get(stage, 'binary-roundtrip-mismatch')


def classify_text(stage: str, exc: Optional[BaseException], diff: Optional[Dict[str, Any]], w: Dict[str, Any]) -> str:
    if stage == 'export':
        if isinstance(exc, UnicodeEncodeError) and exc.encoding == 'ascii' and w.get('mode') != 'ascii' \
                and exc.object in w.get('escaped_type_names', ()):
            return 'kv2-type-name-ascii'
        return 'kv2-export-raises'
    if w.get('raw_unescaped_attr_names'):
        return 'kv2-attr-name-unescaped'  # the text carries an attribute name verbatim that needs escapes
    if stage == 'compare' and diff is not None and diff['field'] == 'stub-uuid' and diff['got'][1] not in w.get('stub_uuids', ()):
        # the reference is still a stub, but carries a UUID that occurs nowhere in the exported graph
        return 'kv2-stub-uuid-lost'
    return 'kv2-parse-raises' if stage == 'parse' else 'kv2-roundtrip-mismatch'


# ------------------------------------------------------------------------------------------------ round trips
def _blank_stub_uuids(nodes: List[Dict[str, Any]]) -> List[Dict[str, Any]]:
    return [dict(n, attrs=[[a[0], a[1], a[2], [(['S', None] if (a[1] == 'ELEMENT' and v[0] == 'S') else v) for v in a[3]]]
                           for a in n['attrs']]) for n in nodes]


def _decode_verdict(data: bytes, exp: List[Dict[str, Any]], stub_uuid: bool) -> Tuple[str, Dict[str, Any]]:
    try:
        nodes, facts = decode_bin(data, stub_uuid)
    except DecodeError as exc:
        return f'fails: {exc}', {}
    got, unreachable = canon(nodes)
    d = diff_nodes(exp if stub_uuid else _blank_stub_uuids(exp), got, True, True)
    if d is None and unreachable:
        return f'{unreachable} unreachable elements', facts
    return ('agrees' if d is None else f'differs: {d}'), facts


_RT = [0]


def _table_strings(exp: List[Dict[str, Any]]) -> int:
    """Upper bound of the number of distinct strings the binary string table holds (types, names, attribute names, scalar strings)."""
    pool = set()
    for n in exp:
        pool.add(n['type'])
        pool.add(n['name'])
        for a in n['attrs']:
            pool.add(a[0])
            if a[1] == 'STRING' and not a[2]:
                pool.update(v for v in a[3] if isinstance(v, str))
    return len(pool)


def roundtrip(run, root: Any, exp: List[Dict[str, Any]], feat: Dict[str, Any], cfg: Dict[str, Any], case: Dict[str, Any],
              engine: str) -> Any:
    """Export under cfg, parse, compare with exp. Returns the parsed root when everything agreed, else None."""
    from srctools.dmx import Element
    binary = cfg['enc'] == 'binary'
    mode = cfg['unicode']
    fmt_name, fmt_ver = cfg.get('fmt', ['dmx', 1])
    case = dict(case, cfg=cfg)
    label = (f'binary v{cfg["version"]}' if binary else f'kv2 flat={cfg["flat"]} cull_uuid={cfg["cull"]}') + f' unicode={mode}'
    classify = classify_binary if binary else classify_text
    w: Dict[str, Any] = {'mode': mode}
    if not binary:
        w['escaped_type_names'] = sorted({h_escape(n['type']) for n in exp})
        w['stub_uuids'] = sorted({v[1] for n in exp for a in n['attrs'] if a[1] == 'ELEMENT' for v in a[3] if v[0] == 'S'})
    # one configuration in eight goes through real files (written to and parsed from a file on disk), the rest through BytesIO
    _RT[0] += 1
    real = _RT[0] % 8 == 0
    buf: Any = tempfile.TemporaryFile('w+b') if real else io.BytesIO()
    try:
        if binary:
            root.export_binary(buf, cfg['version'], fmt_name, fmt_ver, mode)
        else:
            root.export_kv2(buf, fmt_name, fmt_ver, flat=cfg['flat'], unicode=mode, cull_uuid=cfg['cull'])
    except Exception as exc:
        if mode == 'ascii' and feat['non_ascii'] and isinstance(exc, UnicodeError):
            run.count('ascii_mode_refused_non_ascii')
            return None
        if binary and cfg['version'] < 3 and feat['time'] and isinstance(exc, ValueError) and 'TIME' in str(exc):
            run.count('time_refused_before_v3')
            return None
        if binary and 2 <= cfg['version'] <= 4 and _table_strings(exp) > 32767:
            # the string table index of versions 2-4 is a signed 16-bit number: such a graph is one the version cannot express
            run.count('string_table_overflow_refused')
            return None
        run.violation(f'{label}: export raised {type(exc).__name__}: {exc}', witness=dict(w, traceback=traceback.format_exc()[-1500:]),
                      key=classify('export', exc, None, w), engine=engine, case=case)
        return None
    if real:
        buf.seek(0)
        data = buf.read()
        run.count('real_file_roundtrips')
    else:
        data = buf.getvalue()
    run.count('binary_exports' if binary else 'kv2_exports')
    # the same graph exported again under the same configuration: byte-identical (nothing in the writer may remember a run)
    try:
        buf2 = io.BytesIO()
        if binary:
            root.export_binary(buf2, cfg['version'], fmt_name, fmt_ver, mode)
        else:
            root.export_kv2(buf2, fmt_name, fmt_ver, flat=cfg['flat'], unicode=mode, cull_uuid=cfg['cull'])
        if buf2.getvalue() != data:
            k = next((i for i, (a, b) in enumerate(zip(data, buf2.getvalue())) if a != b), min(len(data), len(buf2.getvalue())))
            run.violation(f'{label}: exporting the same graph twice gives different bytes (first difference at offset {k})',
                          key='export-not-repeatable', engine=engine, case=case)
        run.count('repeated_exports')
    except Exception as exc:
        run.violation(f'{label}: the second export of the same graph raised {type(exc).__name__}: {exc}', key='export-not-repeatable',
                      engine=engine, case=case)
    if binary and cfg['version'] < 3 and feat['time']:
        run.violation(f'{label}: a TIME attribute was written to a version that has no TIME type', key='time-written-before-v3',
                      engine=engine, case=case)
        return None
    if binary:
        verdict, facts = _decode_verdict(data, exp, True)
        w['decode_spec'] = verdict
        if verdict != 'agrees':
            v2, f2 = _decode_verdict(data, exp, False)
            w['decode_without_stub_uuid'] = v2
            facts = facts or f2
        else:
            run.count('independent_decodes_agree')
        w.update({k: facts[k] for k in ('version', 'unicode_header', 'stub_refs', 'scalar_code_14', 'non_ascii_type',
                                        'non_ascii_string_array', 'codes') if k in facts})
        if facts.get('fmt') not in (None, [fmt_name, fmt_ver]):
            w['decode_spec'] = f'header format {facts.get("fmt")}'
    else:
        raw = []
        for n in exp:
            for a in n['attrs']:
                if any(c in NEED_ESCAPE for c in a[0]):
                    try:
                        if b'\t"' + a[0].encode('utf8') + b'" "' in data:
                            raw.append(a[0])
                    except UnicodeEncodeError:
                        pass
        if raw:
            w['raw_unescaped_attr_names'] = raw[:4]
    flag = mode == 'silent'
    w['parse_unicode_flag'] = flag
    excerpt = data[:1200].hex() if binary else data[:1500].decode('utf8', 'replace')
    try:
        if real:
            buf.seek(0)
            parsed, got_name, got_ver = Element.parse(buf, unicode=flag)
            buf.close()
        elif len(data) % 3 == 0:
            # the document sits behind something else in the stream (an earlier document, a container header) and the
            # caller has read up to its first byte
            lead = (b'<!-- not this one -->\n', b'\x00' * 300, data[:97])[len(data) % 9 // 3]
            stream = io.BytesIO(lead + data)
            stream.seek(len(lead)) if len(data) % 2 else stream.read(len(lead))
            parsed, got_name, got_ver = Element.parse(stream, unicode=flag)
            w['stream_offset'] = len(lead)
            run.count('parses_from_a_stream_offset')
        else:
            parsed, got_name, got_ver = Element.parse(io.BytesIO(data), unicode=flag)
    except Exception as exc:
        run.violation(f'{label}: Element.parse rejected the library\'s own output: {type(exc).__name__}: {exc}',
                      witness=dict(w, stream=excerpt, traceback=traceback.format_exc()[-1200:]),
                      key=classify('parse', exc, None, w), engine=engine, case=case)
        return None
    run.count('binary_parses' if binary else 'kv2_parses')
    if (got_name, got_ver) != (fmt_name, fmt_ver):
        run.violation(f'{label}: format header came back as {got_name!r} {got_ver!r}', key='header-format-lost', engine=engine, case=case)
    try:
        got = snapshot(parsed)
    except Exception as exc:
        run.violation(f'{label}: the parsed graph cannot be walked: {type(exc).__name__}: {exc}',
                      witness=dict(w, traceback=traceback.format_exc()[-1200:]), key='parsed-graph-unwalkable', engine=engine, case=case)
        return None
    diff = diff_nodes(exp, got, exact=binary, uuids=binary or not cfg['cull'])
    if diff is not None:
        run.violation(f'{label}: parse(export(g)) differs from g at {diff["path"]} ({diff["field"]}): want {diff["want"]!r} got {diff["got"]!r}',
                      witness=dict(w, diff=diff, stream=excerpt), key=classify('compare', None, diff, w), engine=engine, case=case)
        return None
    if binary and w['decode_spec'] != 'agrees':
        run.violation(f'{label}: the library reads its stream back, but an independent decoder of the documented format does not: {w["decode_spec"]}',
                      witness=dict(w, stream=excerpt), key=classify('decode', None, None, w), engine=engine, case=case)
        return None
    if mode == 'silent' and not feat['non_ascii']:
        # the "silent" extension must not change ASCII-only files, and they parse without the flag
        try:
            p2 = snapshot(Element.parse(io.BytesIO(data))[0])
            d2 = diff_nodes(exp, p2, exact=binary, uuids=binary or not cfg['cull'])
        except Exception as exc:
            d2 = {'error': f'{type(exc).__name__}: {exc}'}
        if d2 is not None:
            run.violation(f'{label}: ASCII-only silent output does not parse the same without unicode=True', witness=d2,
                          key='silent-ascii-differs', engine=engine, case=case)
        run.count('silent_ascii_reparsed')
    return parsed


def graph_configs(rng, feat: Dict[str, Any], all_modes: bool) -> List[Dict[str, Any]]:
    if feat['non_ascii']:
        primary = [rng.choice(('format', 'silent'))]
        refusal = ['ascii']
    else:
        primary = [rng.choice(MODES)]
        refusal = []
    modes = MODES if all_modes else primary
    fmt = list(rng.choice(FMT_NAMES))
    out: List[Dict[str, Any]] = []
    for mode in modes:
        if not feat['nul']:
            for v in (1, 2, 3, 4, 5):
                out.append({'enc': 'binary', 'version': v, 'unicode': mode, 'fmt': fmt})
        for flat in (False, True):
            for cull in (False, True):
                out.append({'enc': 'kv2', 'flat': flat, 'cull': cull, 'unicode': mode, 'fmt': fmt})
    if not all_modes:
        for mode in refusal:
            if not feat['nul']:
                out.append({'enc': 'binary', 'version': rng.randint(1, 5), 'unicode': mode, 'fmt': fmt})
            out.append({'enc': 'kv2', 'flat': rng.random() < 0.5, 'cull': False, 'unicode': mode, 'fmt': fmt})
    return out


def check_graph(run, rng, spec: Dict[str, Any], engine: str, case: Dict[str, Any], all_modes: bool, sample: bool = False) -> None:
    feat = gen_dmx.features(spec)
    try:
        root = build(spec)
        exp = snapshot(root)
    except Exception:
        raise  # a harness error: the spec must be buildable (surfaces as INCONCLUSIVE)
    if len(exp) != len(spec['elems']):
        raise AssertionError(f'harness: built graph has {len(exp)} reachable elements, spec has {len(spec["elems"])}')
    for n_cfg, cfg in enumerate(graph_configs(rng, feat, all_modes)):
        parsed = roundtrip(run, root, exp, feat, cfg, case, engine)
        if parsed is not None and n_cfg % 3 == 1:
            # history: the graph read from the bytes is edited in place and dropped; the same bytes are then read again
            try:
                b_same = io.BytesIO()
                fmt_name, fmt_ver = cfg.get('fmt', ['dmx', 1])
                if cfg['enc'] == 'binary':
                    root.export_binary(b_same, cfg['version'], fmt_name, fmt_ver, cfg['unicode'])
                else:
                    root.export_kv2(b_same, fmt_name, fmt_ver, flat=cfg['flat'], unicode=cfg['unicode'], cull_uuid=cfg['cull'])
                from srctools.dmx import Element as _El3
                first_g = _El3.parse(io.BytesIO(b_same.getvalue()), unicode=cfg['unicode'] == 'silent')[0]
                seen_e = {id(first_g)}
                todo_e = [first_g]
                while todo_e:
                    el = todo_e.pop()
                    for attr in list(el.values()):
                        if attr.type.name == 'ELEMENT':
                            for sub in attr.iter_elem():
                                if not sub.is_null and not sub.is_stub and id(sub) not in seen_e:
                                    seen_e.add(id(sub))
                                    todo_e.append(sub)
                        elif attr.is_array:
                            if len(attr):
                                del attr[0]
                        elif attr.type.name == 'INTEGER':
                            attr.val_int = attr.val_int + 1
                        elif attr.type.name == 'STRING' and attr.name.casefold() != 'name':
                            attr.val_str = attr.val_str + '~'
                    el['edited_by_reader_of_first_copy'] = 1
                second_g = snapshot(_El3.parse(io.BytesIO(b_same.getvalue()), unicode=cfg['unicode'] == 'silent')[0])
                d_s = diff_nodes(exp, second_g, exact=cfg['enc'] == 'binary', uuids=cfg['enc'] == 'binary' or not cfg['cull'])
                run.count('bytes_parsed_again_after_the_first_graph_was_edited')
                if d_s is not None:
                    run.violation(f'{cfg["enc"]}: the same bytes parsed again, after the first parsed graph was edited, differ at {d_s["path"]} ({d_s["field"]})',
                                  witness=d_s, key='parse-depends-on-earlier-parse', engine=engine, case=dict(case, cfg=cfg))
            except Exception as exc:
                run.violation(f'{cfg["enc"]}: parsing the same bytes a second time raised {type(exc).__name__}: {exc}', key='parse-depends-on-earlier-parse',
                              engine=engine, case=dict(case, cfg=cfg))
        if parsed is not None and n_cfg % 3 == 0:
            # the graph the READER built is handed to the writer again: it describes the same graph (second generation),
            # so parsing that gives the same snapshot once more
            try:
                b2 = io.BytesIO()
                fmt_name, fmt_ver = cfg.get('fmt', ['dmx', 1])
                if cfg['enc'] == 'binary':
                    parsed.export_binary(b2, cfg['version'], fmt_name, fmt_ver, cfg['unicode'])
                else:
                    parsed.export_kv2(b2, fmt_name, fmt_ver, flat=cfg['flat'], unicode=cfg['unicode'], cull_uuid=cfg['cull'])
                from srctools.dmx import Element as _El2
                again = _El2.parse(io.BytesIO(b2.getvalue()), unicode=cfg['unicode'] == 'silent')[0]
                d2 = diff_nodes(exp, snapshot(again), exact=cfg['enc'] == 'binary', uuids=cfg['enc'] == 'binary' or not cfg['cull'])
            except Exception as exc:
                run.violation(f'{cfg["enc"]}: exporting the parsed graph again raised {type(exc).__name__}: {exc}', key='second-generation-differs',
                              engine=engine, case=dict(case, cfg=cfg))
            else:
                run.count('second_generation_roundtrips')
                if d2 is not None:
                    run.violation(f'{cfg["enc"]}: parse(export(parse(export(g)))) differs from g at {d2["path"]} ({d2["field"]}): want {d2["want"]!r} got {d2["got"]!r}',
                                  witness=d2, key='second-generation-differs', engine=engine, case=dict(case, cfg=cfg))
    # the writers called with nothing but the file (every default argument): documented as version 5 / format "dmx" 1 /
    # ASCII, nested text with UUIDs - compared through the explicit configuration that spells those defaults out
    if not feat['non_ascii'] and not feat['nul']:
        from srctools.dmx import Element as _El
        for label, call, cfg in (('export_binary(file)', root.export_binary, {'enc': 'binary', 'version': 5, 'unicode': 'ascii', 'fmt': ['dmx', 1]}),
                                 ('export_kv2(file)', root.export_kv2, {'enc': 'kv2', 'flat': False, 'cull': False, 'unicode': 'ascii', 'fmt': ['dmx', 1]})):
            b_def, b_exp = io.BytesIO(), io.BytesIO()
            try:
                call(b_def)
                if cfg['enc'] == 'binary':
                    root.export_binary(b_exp, 5, 'dmx', 1, 'ascii')
                else:
                    root.export_kv2(b_exp, 'dmx', 1, flat=False, unicode='ascii', cull_uuid=False)
            except Exception as exc:
                run.violation(f'{label} with default arguments raised {type(exc).__name__}: {exc}', key='default-arguments-differ', engine=engine, case=case)
                continue
            run.count('default_argument_exports')
            if b_def.getvalue() != b_exp.getvalue():
                run.violation(f'{label} with default arguments differs from the call that spells the documented defaults out',
                              key='default-arguments-differ', engine=engine, case=case)
    # binary version 0 ("Must be a number from 0-5"): the legacy header `<!-- DMXVersion <name>_v2 -->`, which the reader
    # accepts for the names 'binary' and 'sfm'; it carries no format name/version (read back as '' and 0) and no TIME type
    if not feat['nul'] and not feat['time']:
        from srctools.dmx import Element as _El
        name0 = ('sfm', 'binary')[len(exp) % 2]
        b0 = io.BytesIO()
        try:
            # (the legacy header has no unicode marker: non-ASCII graphs are written 'silent' and read with unicode=True)
            root.export_binary(b0, 0, name0, 1, 'silent' if feat['non_ascii'] else 'ascii')
            parsed0, got_name0, got_ver0 = _El.parse(io.BytesIO(b0.getvalue()), unicode=bool(feat['non_ascii']))
            d0 = diff_nodes(exp, snapshot(parsed0), exact=True, uuids=True)
        except Exception as exc:
            run.violation(f'binary v0 ({name0}): export/parse raised {type(exc).__name__}: {exc}', key='legacy-version-0-roundtrip',
                          witness={'stream': b0.getvalue()[:200].hex()}, engine=engine, case=case)
        else:
            run.count('legacy_version_0_roundtrips')
            if d0 is not None:
                run.violation(f'binary v0 ({name0}): parse(export(g)) differs from g at {d0["path"]} ({d0["field"]}): want {d0["want"]!r} got {d0["got"]!r}',
                              witness=d0, key='legacy-version-0-roundtrip', engine=engine, case=case)
            elif (got_name0, got_ver0) != ('', 0):
                run.violation(f'binary v0: format came back as {got_name0!r} {got_ver0!r} (the legacy header carries none)',
                              key='legacy-version-0-roundtrip', engine=engine, case=case)
    after = snapshot(root)
    d = diff_nodes(exp, after, True, True)
    if d is not None:
        run.violation(f'exporting changed the in-memory graph at {d["path"]} ({d["field"]})', witness=d, key='export-mutates-graph',
                      engine=engine, case=case)
    elif rng.random() < 0.3:
        # history: the graph that has just been exported is edited in place (ASCII-only edits, so the features that decide
        # which encodings can carry it stay as they are) and exported again - nothing may be remembered from the first export
        from srctools import dmx as _dmx
        walked = [root]
        seen_ids = {id(root)}
        for el in walked:
            for attr in el.values():
                if attr.type is _dmx.ValueType.ELEMENT:
                    for sub in attr.iter_elem():
                        if not sub.is_null and not sub.is_stub and id(sub) not in seen_ids:
                            seen_ids.add(id(sub))
                            walked.append(sub)
        for el in rng.sample(walked, min(len(walked), 3)):
            el['edited_after_export'] = rng.randrange(100)
            if 'name' in el and not any(ord(c) > 127 or c == '\x00' for c in el.name):
                el.name = el.name + '_e'
            # (a TIME attribute is never deleted: whether the graph holds one decides which binary versions may refuse it)
            keys = [k for k in el.keys() if k not in ('name', 'edited_after_export') and el[k].type is not _dmx.ValueType.TIME]
            if keys and rng.random() < 0.5:
                del el[rng.choice(keys)]
        try:
            exp2 = snapshot(root)
        except Exception:
            raise
        run.count('graphs_re_exported_after_edits')
        case2 = dict(case, after_edit=True)
        # deleting a reference can make the only TIME attribute unreachable: what the graph holds NOW decides
        feat2 = dict(feat, time=any(a[1] == 'TIME' for n in exp2 for a in n['attrs']))
        for cfg in rng.sample(graph_configs(rng, feat2, False), 2):
            roundtrip(run, root, exp2, feat2, cfg, case2, engine + '-after-edit')
    # monitor counters: what the workload actually contained
    for name in ('sharing', 'cycle', 'self_loop', 'shared_stub'):
        if feat[name]:
            run.count('graphs_with_' + name)
    if any(e.get('nameless') for e in spec['elems']):
        run.count('graphs_with_nameless_elements')
    for name in ('stub', 'null', 'null_in_array', 'empty_array', 'scalar_matrix', 'name_needs_escape', 'unicode_string_array',
                 'unicode_type'):
        if feat[name]:
            run.count(name + '_occurrences', feat[name])
    if feat['nul']:
        run.count('graphs_with_nul_text_only')
    for t in feat['types_scalar']:
        run.count('scalar_' + t)
    for t in feat['types_array']:
        run.count('array_' + t)
    nontrivial = bool(feat['sharing'] or feat['cycle'] or feat['stub'] or feat['null'] or feat['array'])
    smp = None
    if sample:
        smp = {'spec': spec, 'features': {k: v for k, v in feat.items() if not k.startswith('types_')}}
    run.case(spec, nontrivial, sample=smp, tag=engine)


# ------------------------------------------------------------------------------------------------ fixed graphs
def _u(n: int) -> str:
    return UUID(int=(0x1234567890abcdef1234567890abcdef + n) % 2 ** 128, version=4).hex


def _el(n: int, attrs: List[Any], typ: str = 'DmElement', name: Optional[str] = None) -> Dict[str, Any]:
    return {'type': typ, 'name': f'e{n}' if name is None else name, 'uuid': _u(n), 'attrs': attrs}


_ID = [1.0, 0.0, 0.0, 0.0, 1.0, 0.0, 0.0, 0.0, 1.0]
_ONE = {'INT': -7, 'FLOAT': 0.5, 'BOOL': True, 'STRING': 'text', 'BINARY': '00ff10', 'TIME': 605000, 'COLOR': [1, 2, 3, 4],
        'VEC2': [1.0, -2.0], 'VEC3': [1.0, 2.0, 3.5], 'VEC4': [1.0, 2.0, 3.0, 4.0], 'ANGLE': [10.0, 20.0, 30.0],
        'QUATERNION': [0.0, 0.0, 0.0, 1.0], 'MATRIX': [0.0, 1.0, 0.0, -1.0, 0.0, 0.0, 0.0, 0.0, 1.0]}


def fixed_graphs() -> List[Tuple[str, Dict[str, Any]]]:
    every = []
    for t in TYPES[1:]:
        every += [[f'{t.lower()}Scalar', t, False, _ONE[t]], [f'{t.lower()}_ARRAY', t, True, [_ONE[t], _ONE[t]]],
                  [f'{t.lower()}Empty', t, True, []]]
    every += [['elemScalar', 'ELEMENT', False, 1], ['elemArray', 'ELEMENT', True, [1, None, 1]], ['elemEmpty', 'ELEMENT', True, []]]
    return [
        ('scalar-matrix', {'elems': [_el(0, [['m', 'MATRIX', False, _ONE['MATRIX']], ['after', 'INT', False, 5]])]}),
        ('matrix-array', {'elems': [_el(0, [['m', 'MATRIX', True, [_ID, _ONE['MATRIX']]]])]}),
        ('stub-scalar', {'elems': [_el(0, [['ext', 'ELEMENT', False, 's:' + _u(100)], ['after', 'INT', False, 5]])]}),
        ('stub-array-shared', {'elems': [_el(0, [['arr', 'ELEMENT', True, ['s:' + _u(100), None, 's:' + _u(101), 's:' + _u(100)]],
                                                 ['again', 'ELEMENT', False, 's:' + _u(101)]])]}),
        ('attr-name-quote', {'elems': [_el(0, [['a"b', 'INT', False, 3], ['tail', 'STRING', False, 'x']])]}),
        ('attr-name-backslash', {'elems': [_el(0, [['a\\b', 'INT', False, 3], ['new\nline\ttab', 'BOOL', True, [True]]])]}),
        ('unicode-string-array', {'elems': [_el(0, [['s', 'STRING', True, ['é中', 'plain', '\U0001f600']]])]}),
        ('unicode-type-name', {'elems': [_el(0, [['k', 'ELEMENT', False, 1]], typ='Té'), _el(1, [], typ='型')]}),
        ('unicode-names', {'elems': [_el(0, [['né', 'STRING', False, 'vé']], name='ré')]}),
        ('self-loop', {'elems': [_el(0, [['me', 'ELEMENT', False, 0], ['us', 'ELEMENT', True, [0, 0]]])]}),
        ('mutual-cycle', {'elems': [_el(0, [['a', 'ELEMENT', False, 1]]), _el(1, [['b', 'ELEMENT', False, 2]]),
                                    _el(2, [['back', 'ELEMENT', True, [1, 0]]])]}),
        ('diamond', {'elems': [_el(0, [['l', 'ELEMENT', False, 1], ['r', 'ELEMENT', False, 2]]), _el(1, [['d', 'ELEMENT', False, 3]]),
                               _el(2, [['d', 'ELEMENT', True, [3, 3]]]), _el(3, [['leaf', 'INT', False, 1]])]}),
        ('null-refs', {'elems': [_el(0, [['n', 'ELEMENT', False, None], ['ns', 'ELEMENT', True, [None, 1, None]]]), _el(1, [])]}),
        ('every-type', {'elems': [_el(0, every, typ='DmeEverything'), _el(1, [['ID', 'STRING', False, 'not the uuid']])]}),
        # unusual sizes: hundreds of attributes on one element, a 70 000-entry array, a 70 000-character string, a string array
        # with more distinct strings than a 16-bit table index can count, a long chain of elements
        ('many-attributes', {'elems': [_el(0, [[f'attr_{k:03d}', 'INT', False, k] for k in range(400)])]}),
        ('big-arrays', {'elems': [_el(0, [['ints', 'INT', True, list(range(-35000, 35000))], ['text', 'STRING', False, 'xy' * 35000],
                                          ['blob', 'BINARY', False, '00ff' * 40000], ['after', 'INT', False, 7]])]}),
        ('many-strings', {'elems': [_el(0, [['names', 'STRING', True, [f's{k}' for k in range(66000)]], ['after', 'STRING', False, 's1']])]}),
        # more distinct table strings (element names) than a signed 16-bit index can count, fewer than an unsigned one can:
        # versions 2-4 cannot express this graph (they refuse it), 1 and 5 can
        ('string-table-over-32767', {'elems': [_el(0, [['kids', 'ELEMENT', True, list(range(1, 33201))]], name='zz_root')]
                                              + [_el(k, [], name=f'kid{k:05d}') for k in range(1, 33201)]}),
        ('long-chain', {'elems': [_el(k, [['next', 'ELEMENT', False, k + 1]] if k < 299 else [['end', 'BOOL', False, True]]) for k in range(300)]}),
    ]


# ------------------------------------------------------------------------------------------------ Keyvalues bridge
def kv_build(tree: Any) -> Any:
    from srctools.keyvalues import Keyvalues
    name, val = tree
    if isinstance(val, str):
        return Keyvalues(name, val)
    kids = [kv_build(c) for c in val]
    if name is None:
        return Keyvalues.root(*kids)
    return Keyvalues(name, kids)


def kv_snap(kv: Any) -> Any:
    if kv.has_children():
        return [kv.real_name, [kv_snap(c) for c in kv]]
    return [kv.real_name, kv.value]


def kv_diff(a: Any, b: Any, path: str = '') -> Optional[Dict[str, Any]]:
    if a[0] != b[0]:
        return {'path': path, 'field': 'name', 'want': a[0], 'got': b[0]}
    if isinstance(a[1], str) or isinstance(b[1], str):
        if a[1] != b[1]:
            return {'path': path, 'field': 'value', 'want': a[1] if isinstance(a[1], str) else '<block>',
                    'got': b[1] if isinstance(b[1], str) else '<block>'}
        return None
    for i, (x, y) in enumerate(zip(a[1], b[1])):
        d = kv_diff(x, y, f'{path}/{i}')
        if d:
            return d
    if len(a[1]) != len(b[1]):
        return {'path': path, 'field': 'child-count', 'want': len(a[1]), 'got': len(b[1])}
    return None


def _kv_stats(tree: Any) -> Tuple[int, bool]:
    name, val = tree
    non_ascii = bool(name) and any(ord(c) > 127 for c in name)
    if isinstance(val, str):
        return 1, non_ascii or any(ord(c) > 127 for c in val)
    n = 1
    for c in val:
        k, u = _kv_stats(c)
        n += k
        non_ascii = non_ascii or u
    return n, non_ascii


def check_kv(run, rng, tree: Any, engine: str, case: Dict[str, Any], sample: bool = False) -> None:
    from srctools.dmx import Element
    kv = kv_build(tree)
    want = kv_snap(kv)
    # leaf trees given as (name, str) build a leaf Keyvalues whose has_children() is False
    try:
        elem = Element.from_kv1(kv)
        run.count('from_kv1_calls')
        back = elem.to_kv1()
        run.count('to_kv1_calls')
    except Exception as exc:
        run.violation(f'from_kv1/to_kv1 raised {type(exc).__name__}: {exc}', witness=traceback.format_exc()[-1500:],
                      key='kv1-bridge-raises', engine=engine, case=case)
        run.case(tree, False, tag=engine)
        return
    d = kv_diff(want, kv_snap(back))
    if d is not None:
        run.violation(f'to_kv1(from_kv1(t)) differs from t at {d["path"]} ({d["field"]}): want {d["want"]!r} got {d["got"]!r}',
                      witness=d, key='kv1-bridge-mismatch', engine=engine, case=case)
    d = kv_diff(want, kv_snap(kv))
    if d is not None:
        run.violation('from_kv1 changed its input tree', witness=d, key='kv1-bridge-mutates-input', engine=engine, case=case)
    # the same bridge with one wire encoding in between
    nodes, non_ascii = _kv_stats(tree)
    mode = rng.choice(('format', 'silent')) if non_ascii else rng.choice(MODES)
    if rng.random() < 0.5:
        cfg: Dict[str, Any] = {'enc': 'binary', 'version': rng.randint(1, 5), 'unicode': mode}
    else:
        cfg = {'enc': 'kv2', 'flat': rng.random() < 0.5, 'cull': rng.random() < 0.5, 'unicode': mode}
    exp = snapshot(elem)
    feat = {'non_ascii': non_ascii, 'time': False, 'nul': False}
    parsed = roundtrip(run, elem, exp, feat, cfg, case, engine)
    if parsed is not None:
        try:
            d = kv_diff(want, kv_snap(parsed.to_kv1()))
            run.count('to_kv1_after_wire')
        except Exception as exc:
            d = {'error': f'{type(exc).__name__}: {exc}'}
        if d is not None:
            run.violation(f'to_kv1(parse(export(from_kv1(t)))) differs from t: {d}', witness=d, key='kv1-bridge-wire-mismatch',
                          engine=engine, case=dict(case, cfg=cfg))
    run.case(tree, nodes >= 2, sample={'tree': tree} if sample else None, tag=engine)


FIXED_KV = [
    ('Root', [('Key1', 'blah'), ('key2', 'another'), ('key1', 'value')]),
    ('blah', [('a_leaf', 'result'), ('block', [])]),
    (None, [('name', 'n'), ('subkeys', 's'), ('other', 'o')]),
    ('blk', [('Name', 'x')]),
    ('q"uote', [('k"ey', 'v"al'), ('back\\slash', 'a\\b')]),
    (None, [('a', [('b', [('c', 'd')])]), ('a', [])]),
    ('leaf', 'just a value'),
    ('ünï', [('kéy', 'välue')]),
]


# ------------------------------------------------------------------------------------------------ entry points
def _probe() -> ReachProbe:
    import srctools.dmx as dmx
    return ReachProbe({
        'Element.export_binary': (dmx, 'Element.export_binary'),
        'Element.parse_bin': (dmx, 'Element.parse_bin'),
        'Element.export_kv2': (dmx, 'Element.export_kv2'),
        'Element._export_kv2': (dmx, 'Element._export_kv2'),
        'Element.parse_kv2': (dmx, 'Element.parse_kv2'),
        'Element._parse_kv2_element': (dmx, 'Element._parse_kv2_element'),
        'Element.from_kv1': (dmx, 'Element.from_kv1'),
        'Element.to_kv1': (dmx, 'Element.to_kv1'),
    })


def wide_integers(run) -> None:
    """Integers that text can carry and a 32-bit binary field cannot (the ValueType documents INTEGER in text as arbitrary
    precision): written with export_kv2 under every layout option and read back exactly, as scalars and as array items."""
    import io as _io
    from srctools.dmx import Element, Attribute
    values = [2 ** 31, -2 ** 31 - 1, 2 ** 32 + 5, 2 ** 53, 2 ** 53 + 1, -(2 ** 53) - 1, 2 ** 63 - 1, -(2 ** 63), 2 ** 64 - 1,
              10 ** 20 + 7, 123456789012345678, 9007199254740993, 3 ** 60]
    for flat in (False, True):
        for cull in (False, True):
            for uni in ('ascii', 'format', 'silent'):
                e = Element('wide', 'DmElement')
                for k, v in enumerate(values):
                    e[f'i{k}'] = Attribute.int(f'i{k}', v)
                e['arr'] = Attribute.array('arr', __import__('srctools.dmx', fromlist=['ValueType']).ValueType.INT)
                for v in values:
                    e['arr'].append(v)
                case = {'engine': 'wide-integers', 'flat': flat, 'cull_uuid': cull, 'unicode': uni}
                b = _io.BytesIO()
                try:
                    e.export_kv2(b, 't', 1, flat=flat, cull_uuid=cull, unicode=uni)
                    r, _, _ = Element.parse(_io.BytesIO(b.getvalue()), unicode=True)
                    got = [r[f'i{k}'].val_int for k in range(len(values))]
                    got_arr = list(r['arr'].iter_int())
                except Exception as exc:
                    run.violation(f'kv2 flat={flat} cull_uuid={cull} unicode={uni}: integers beyond 32 bits raised {exc!r}',
                                  witness=traceback.format_exc()[-900:], case=case, engine='wide-integers', key='wide-integer-raises')
                    continue
                run.count('wide_integer_roundtrips')
                if got != values or got_arr != values:
                    bad = next((w, g) for w, g in zip(values + values, got + got_arr) if w != g)
                    run.violation(f'kv2 flat={flat} cull_uuid={cull} unicode={uni}: the integer {bad[0]} came back as {bad[1]}',
                                  witness={'wrote': values, 'read_scalars': got, 'read_array': got_arr}, case=case,
                                  engine='wide-integers', key='wide-integer-altered')


def stub_after_definition(run) -> None:
    """Two unrelated documents read in one process: the first defines an element with UUID U, the second only refers to U
    through a stub.  What the second parse returns depends on the second document alone - the stub stays a stub."""
    import io as _io
    from uuid import UUID
    from srctools.dmx import Element, Attribute, StubElement, ValueType
    for k, (enc, opts) in enumerate([('kv2', dict(flat=False)), ('kv2', dict(flat=True)), ('kv2', dict(flat=False, cull_uuid=True)),
                                     ('bin', dict(version=5)), ('bin', dict(version=2))]):
        uid = UUID(int=0x1234567890abcdef1234567890abcd00 + k)
        first = Element('first', 'DmElement')
        target = Element('the target', 'DmeTarget', uuid=uid)
        target['payload'] = 42
        first['child'] = target
        second = Element('second', 'DmElement')
        second['ref'] = StubElement.stub(uid)
        arr = Attribute.array('refs', ValueType.ELEMENT)
        arr.append(StubElement.stub(uid))
        second['refs'] = arr
        case = {'engine': 'stub-after-definition', 'encoding': enc, **{a: str(b) for a, b in opts.items()}}
        try:
            docs = []
            for root in (first, second):
                b = _io.BytesIO()
                if enc == 'kv2':
                    root.export_kv2(b, 't', 1, **({} if root is first else opts))
                else:
                    root.export_binary(b, fmt_name='t', fmt_ver=1, **opts)
                docs.append(b.getvalue())
            r1, _, _ = Element.parse(_io.BytesIO(docs[0]))
            r2, _, _ = Element.parse(_io.BytesIO(docs[1]))
            got = [r2['ref'].val_elem] + list(r2['refs'].iter_elem())
        except Exception as exc:
            run.violation(f'{enc} {opts}: a document holding only a stub, read after another document, raised {exc!r}',
                          witness=traceback.format_exc()[-900:], case=case, engine='stub-after-definition', key='stub-after-definition')
            continue
        run.count('stub_documents_read_after_a_defining_document')
        for g in got:
            if not g.is_stub or g.uuid != uid or g is r1['child'].val_elem or len(g) != 0:
                run.violation(f'{enc} {opts}: a stub reference to {uid} came back as {g!r} after another document that defines that '
                              f'UUID had been read in the same process', case=case, engine='stub-after-definition',
                              key='stub-after-definition')
                break


def _preflight(run) -> None:
    from rv.monitor import Inconclusive
    import srctools.dmx as dmx
    members = ['INT' if vt.name == 'INTEGER' else vt.name for vt in dmx.ValueType]
    if members != TYPES:
        raise Inconclusive(f'ValueType members {members} are not the {len(TYPES)} types this check generates')
    if [dmx.VAL_TYPE_TO_IND[dmx.ValueType[t]] for t in TYPES] != list(range(1, 15)):
        raise Inconclusive('VAL_TYPE_TO_IND no longer matches the wire codes the independent decoder assumes')
    if [vt.value for vt in dmx.ValueType] != gen_dmx.KEYWORDS:
        raise Inconclusive('KeyValues2 type keywords changed; the generator restriction on element type names is stale')


def name_attr_case(run) -> None:
    """The element name assigned through the attribute interface in any letter case (elem['Name'] = ...): the wire has
    one slot for it, so its casing is not compared - but the name must arrive and NO OTHER attribute may be lost."""
    import io as _io
    from srctools.dmx import Element
    for spelling in ('Name', 'NAME', 'nAmE', 'name'):
        for n_attr in (1, 2, 5):
            e = Element('initial', 'DmeCase')
            e[spelling] = 'via-attribute'
            for k in range(n_attr):
                e[f'attr{k}'] = [k, float(k) + 0.5, f's{k}', k % 2 == 0][k % 4]
            want = {f'attr{k}': e[f'attr{k}'].type.name for k in range(n_attr)}
            outs = []
            jobs = [(f'binary v{v}', lambda b, v=v: e.export_binary(b, version=v, fmt_name='t', fmt_ver=1, unicode='silent')) for v in (1, 2, 3, 4, 5)]
            jobs += [(f'kv2 flat={flat}', lambda b, flat=flat: e.export_kv2(b, 't', 1, flat=flat, unicode='silent')) for flat in (False, True)]
            for label, fn in jobs:
                b = _io.BytesIO()
                try:
                    fn(b)
                except Exception as exc:
                    run.violation(f'{label}: exporting an element named through elem[{spelling!r}] raised {exc!r}',
                                  case={'engine': 'name-attr-case', 'spelling': spelling, 'n_attr': n_attr, 'encoding': label},
                                  engine='name-attr-case', key='name-attr-case-export-raises')
                    continue
                outs.append((label, b.getvalue()))
            for label, data in outs:
                run.count('name_attr_case_roundtrips')
                case = {'engine': 'name-attr-case', 'spelling': spelling, 'n_attr': n_attr, 'encoding': label}
                try:
                    r, _, _ = Element.parse(_io.BytesIO(data), unicode=True)
                except Exception as exc:
                    run.violation(f'{label}: element named through elem[{spelling!r}] does not re-parse: {exc!r}', case=case,
                                  engine='name-attr-case', key='name-attr-case-unparseable')
                    continue
                got = {k: a.type.name for k, a in r.items() if k.casefold() != 'name'}
                if r.name != 'via-attribute' or got != want:
                    run.violation(f'{label}: element named through elem[{spelling!r}] re-reads as name={r.name!r} attributes={sorted(got)} (wanted {sorted(want)})',
                                  case=case, engine='name-attr-case', key='name-attr-case-loses-attribute')
            run.case(['name-attr-case', spelling, n_attr], True)


def main(run, shard=(0, 1)) -> None:
    thorough = run.tier == 'thorough'
    _preflight(run)
    probe = _probe()
    probe.start()
    n_graphs = 150000 if thorough else 6000
    for i in range(n_graphs):
        if not mine(i, shard):
            continue
        rng = sub_rng(run.seed, 'graph', i)
        # drawn, not i % k: with i % k the expensive cases would all land on the same shards
        spec = gen_dmx.gen_graph(rng, big=rng.random() < 0.2 and thorough)
        check_graph(run, rng, spec, 'graph', {'engine': 'graph', 'index': i}, all_modes=rng.random() < 1 / 6, sample=i < 2)
    for j, (label, spec) in enumerate(fixed_graphs()):
        if mine(j, shard):
            check_graph(run, sub_rng(run.seed, 'fixed', j), spec, 'fixed', {'engine': 'fixed', 'index': j, 'label': label},
                        all_modes=True, sample=j == 0)
    n_kv = 150000 if thorough else 5000
    for i in range(n_kv):
        if not mine(i, shard):
            continue
        rng = sub_rng(run.seed, 'kv1', i)
        tree = gen_dmx.gen_kv_tree(rng)
        check_kv(run, rng, tree, 'kv1', {'engine': 'kv1', 'index': i}, sample=i < 2)
    for j, tree in enumerate(FIXED_KV):
        if mine(j, shard):
            check_kv(run, sub_rng(run.seed, 'kv1-fixed', j), tree, 'kv1-fixed', {'engine': 'kv1-fixed', 'index': j})
    if shard[0] == 0:
        name_attr_case(run)
        wide_integers(run)
        stub_after_definition(run)
    probe.report(run)
    probe.check_reached(run)
    run.require('wide_integer_roundtrips', 'stub_documents_read_after_a_defining_document', 'default_argument_exports', 'legacy_version_0_roundtrips', 'string_table_overflow_refused', 'second_generation_roundtrips', 'bytes_parsed_again_after_the_first_graph_was_edited', 'binary_parses', 'kv2_parses', 'real_file_roundtrips', 'repeated_exports', 'graphs_re_exported_after_edits', 'independent_decodes_agree', 'to_kv1_calls', 'to_kv1_after_wire',
                'graphs_with_sharing', 'graphs_with_cycle', 'graphs_with_self_loop', 'graphs_with_nameless_elements', 'stub_occurrences', 'null_in_array_occurrences',
                'empty_array_occurrences', 'scalar_matrix_occurrences', 'name_needs_escape_occurrences',
                'unicode_string_array_occurrences', 'unicode_type_occurrences', 'ascii_mode_refused_non_ascii',
                'time_refused_before_v3', *('scalar_' + t for t in TYPES), *('array_' + t for t in TYPES))


def _tup(t: Any) -> Any:
    return (t[0], t[1] if isinstance(t[1], str) else [_tup(c) for c in t[1]])


def replay(run, data) -> None:
    case = data['case']
    engine, idx = case['engine'], case['index']
    if engine == 'graph':
        rng = sub_rng(run.seed, 'graph', idx)
        spec = gen_dmx.gen_graph(rng, big=rng.random() < 0.2 and run.tier == 'thorough')
        rng.random()  # the all_modes draw of main(); replay always runs every mode
        check_graph(run, rng, spec, 'graph', {'engine': 'graph', 'index': idx}, all_modes=True, sample=True)
    elif engine == 'fixed':
        label, spec = fixed_graphs()[idx]
        check_graph(run, sub_rng(run.seed, 'fixed', idx), spec, 'fixed', {'engine': 'fixed', 'index': idx, 'label': label},
                    all_modes=True, sample=True)
    elif engine == 'kv1':
        for k in range(8):  # the wire configuration is drawn after the tree: replay the recorded one and a few others
            rng = sub_rng(run.seed, 'kv1', idx)
            tree = gen_dmx.gen_kv_tree(rng)
            if k:
                rng = sub_rng(run.seed, 'kv1-replay', k)
            check_kv(run, rng, tree, 'kv1', {'engine': 'kv1', 'index': idx}, sample=k == 0)
    else:
        for k in range(8):
            check_kv(run, sub_rng(run.seed, 'kv1-fixed' if k == 0 else 'kv1-replay', idx if k == 0 else k), _tup(FIXED_KV[idx]),
                     'kv1-fixed', {'engine': 'kv1-fixed', 'index': idx})
    run.case('pad', True)
    run.case('pad2', True)


# (kept at the end of the file so that the text above stays the description the check was first built to)
RULE += ' ' + "Later additions: binary version 0 (legacy header, format names 'sfm' / 'binary'); a graph with 33 200 table strings (versions 2-4 may refuse it); attributes built through the typed constructors and arrays filled through append / extend / __setitem__ / __delitem__. A third of the parses read the document from a stream that holds other bytes in front of it and stands at its first byte. Integers beyond 32 and beyond 53 bits written as text (scalars and array items, every layout option) come back exactly. A document that only refers to a UUID through stubs is read after an unrelated document that defines that UUID: the stubs stay stubs."
