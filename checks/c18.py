"""C18 A constrained directory filesystem never reaches outside its root.

Monitors: (1) content oracle - every file carries its real location, so data from outside the root is recognisable
whatever name it was reached by; (2) audit hook - every open / listdir / scandir / os.walk the interpreter performs
during a call is recorded, and a real path outside the root (inside the sandbox tree) refutes the property even if
the call returned nothing; (3) independent containment model for calls that leave no audit event (existence tests).
"""
from __future__ import annotations

import itertools
import os
import shutil
import sys
import tempfile
from typing import Any, Dict, List, Optional, Tuple

from rv.util import mine, sub_rng
from rv.probes import ReachProbe

PROP = 'C18'
LEVEL = 'exploration'
RULE = ('a temp tree base/{root/{a.txt,sub/b.txt,sub/deep/c.txt}, root_evil/x.txt, rootx/y.txt, ro/z.txt, parent.txt}; '
        'path strings enumerated EXHAUSTIVELY as sequences of up to L segments (L=5 quick, 6 thorough) over the segment '
        'alphabet [.., ., sub, deep, a.txt, x.txt, root_evil, rootx, root, <empty>] joined by "/" (and re-joined with "\\\\" '
        'and mixed separators for a seeded subset), each also with an absolute prefix (the root itself, its sibling, its '
        'parent); operations: fs[p], p in fs, open_bin, open_str, walk_folder, iteration, read_kv1, on RawFileSystem(root) '
        'given with and without trailing separator, through FileSystemChain with and without a subfolder prefix, and after an UNCONSTRAINED twin object on the same directory has answered the same queries; '
        'packlist.unify_path outputs of the same strings as additional inputs. '
        'Non-trivial = the path contains ".." or an absolute prefix; distinct = distinct (path, configuration).')
ASSUMPTIONS = ['symbolic links are not part of the statement and none are created',
               'containment is decided on normalised absolute paths (what the statement calls "located inside the root directory")',
               'POSIX semantics: a backslash is an ordinary filename character, so backslash-joined paths are expected to be misses or contained']
JOBS = {'quick': 4, 'thorough': 16}

SEGMENTS = ['..', '.', 'sub', 'deep', 'a.txt', 'x.txt', 'root_evil', 'rootx', 'root', '']


class Sandbox:
    def __init__(self) -> None:
        self.base = os.path.realpath(tempfile.mkdtemp(prefix='rv-c18-'))
        self.root = os.path.join(self.base, 'root')
        files = {
            'root/a.txt': None, 'root/sub/b.txt': None, 'root/sub/deep/c.txt': None, 'root/x.txt': None,
            'root_evil/x.txt': None, 'root_evil/a.txt': None, 'root_evil/sub/b.txt': None, 'rootx/y.txt': None, 'rootx/a.txt': None,
            'ro/z.txt': None, 'parent.txt': None, 'a.txt': None, 'x.txt': None,
            # a folder that has the same RELATIVE name as the root when seen from another working directory
            'elsewhere/root/a.txt': None, 'elsewhere/root/x.txt': None, 'elsewhere/root/sub/b.txt': None,
        }
        for rel in files:
            full = os.path.join(self.base, rel)
            os.makedirs(os.path.dirname(full), exist_ok=True)
            inside = rel.startswith('root/')   # (elsewhere/root/... is OUTSIDE)
            with open(full, 'w') as f:
                # valid KV1 so that read_kv1 works too
                f.write(f'"{"INSIDE" if inside else "OUTSIDE"}" "{rel}"\n')

    def cleanup(self) -> None:
        if getattr(self, 'cwd0', None):
            os.chdir(self.cwd0)
        shutil.rmtree(self.base, ignore_errors=True)

    def contained(self, path: str, root: Optional[str] = None) -> bool:
        root = root or self.root
        resolved = os.path.normpath(os.path.join(root, path))
        return resolved == root or resolved.startswith(root + os.sep)


class Auditor:
    """Collects filesystem-touching audit events while armed."""
    def __init__(self, base: str) -> None:
        self.base = base
        self.armed = False
        self.events: List[Tuple[str, str]] = []
        sys.addaudithook(self._hook)

    def _hook(self, event: str, args: tuple) -> None:
        if not self.armed:
            return
        if event in ('open', 'os.listdir', 'os.scandir', 'os.walk'):
            p = args[0] if args else None
            if isinstance(p, bytes):
                p = os.fsdecode(p)
            if isinstance(p, str):
                self.events.append((event, p))

    def outside(self, root: str) -> List[Tuple[str, str]]:
        bad = []
        for ev, p in self.events:
            rp = os.path.realpath(p)
            if rp.startswith(self.base + os.sep) and not (rp == root or rp.startswith(root + os.sep)):
                bad.append((ev, p))
        return bad


PRIMES = ['', '.', 'sub/..', 'a.txt', 'sub', 'sub/x.txt', './', 'sub/../a.txt']


def classify(path: str) -> str:
    """Mechanism key: which kind of path got through."""
    if 'root_evil' in path or 'rootx' in path:
        return 'root-prefix-compare'
    return 'escape-other'


def probe_path(run, sb: Sandbox, aud: Auditor, fs, root: str, label: str, path: str, engine: str, prefix: str = '', twin=None) -> None:
    from srctools.filesys import RootEscapeError
    case = {'path': path, 'config': label}
    # a chain member restricted to a subfolder addresses names relative to that subfolder
    model_path = os.path.join(prefix, path) if prefix else path
    if label.startswith('chain'):
        model_path = model_path.replace('\\', '/')  # FileSystemChain documents normalising both slash kinds
    inside = sb.contained(model_path, root)
    if twin is not None:
        # history: an UNCONSTRAINED filesystem object on the same directory answers the same questions first
        # (anything it caches or shares must not leak into the constrained one)
        for op in (lambda: path in twin, lambda: twin[path].open_bin().read(), lambda: twin.open_str(path).read(),
                   lambda: list(itertools.islice(twin.walk_folder(path), 3))):  # islice: an unconstrained walk of '/' must not be exhausted
            try:
                op()
            except Exception:
                pass
        run.count('twin_warmups')

    def fail(what: str, witness: Any = None, key: Optional[str] = None) -> None:
        run.violation(f'[{label}] {what}', witness=witness, case=case, engine=engine, key=key or classify(path))

    prime_i = [0]

    def guarded(op: str, fn):
        if label == 'raw-primed':
            # history: immediately before every operation the same object answers a harmless question about a path inside the
            # root (the root folder itself, a file in it, a subfolder ...): whatever it remembers must not help the next path out
            prime = PRIMES[(prime_i[0] + len(path)) % len(PRIMES)]
            prime_i[0] += 1
            for q in (lambda: prime in fs, lambda: list(itertools.islice(fs.walk_folder(prime), 2)), lambda: fs[prime]):
                try:
                    q()
                except Exception:
                    pass
            run.count('primed_operations')
        aud.events.clear()
        aud.armed = True
        try:
            res = fn()
            exc = None
        except RootEscapeError as e:
            res, exc = None, e
        except (FileNotFoundError, NotADirectoryError, IsADirectoryError, PermissionError, ValueError, OSError, UnicodeDecodeError, LookupError) as e:
            res, exc = None, e
        finally:
            aud.armed = False
        run.count('operations')
        bad = aud.outside(root)
        if bad and not isinstance(exc, RootEscapeError):
            fail(f'{op}({path!r}) touched {bad[0][1]!r} outside the root ({bad[0][0]} event) without RootEscapeError',
                 {'events': bad[:4], 'outcome': repr(exc) if exc else 'returned'})
        if isinstance(exc, RootEscapeError):
            run.count('root_escape_errors')
        return res, exc

    # lookup + read through the returned File
    def lookup():
        f = fs[path]
        with f.open_bin() as fh:
            return fh.read()
    data, exc = guarded('fs[...].open_bin', lookup)
    if data is not None and b'OUTSIDE' in data:
        fail(f'lookup of {path!r} returned data from outside the root: {data[:60]!r}')
    if data is not None and not inside:
        fail(f'lookup of {path!r} succeeded although the path resolves outside the root', {'data': data[:60].decode('latin1')})
    if not inside and exc is not None and not isinstance(exc, RootEscapeError):
        # a path that resolves outside must be answered with RootEscapeError, not a plain miss
        fail(f'lookup of {path!r} (resolves outside the root) raised {type(exc).__name__} instead of RootEscapeError', key=classify(path) + ':silent-miss')
    # existence test (no audit event: judged by the containment model)
    res, exc = guarded('in', lambda: path in fs)
    if res is True and not inside:
        fail(f'{path!r} in fs is True for a path that resolves outside the root')
    if res is False and not inside:
        fail(f'{path!r} in fs answered False (no RootEscapeError) for a path that resolves outside the root', key=classify(path) + ':silent-miss')
    # direct opens
    import srctools.filesys as _fsm
    handle_ops = []
    if isinstance(fs, _fsm.RawFileSystem):
        # a File handle that names the path (made by hand, or by another filesystem object over the same directory) goes
        # through the same containment check as the string
        handle_ops = [('open_bin(File)', lambda: fs.open_bin(_fsm.File(fs, path, path)).read()),
                      ('open_str(File)', lambda: fs.open_str(_fsm.File(fs, path, path)).read().encode())]
        run.count('file_handle_opens')
    for op, fn in [('open_bin', lambda: fs.open_bin(path).read()), ('open_str', lambda: fs.open_str(path).read().encode()),
                   ('read_kv1', lambda: fs.read_kv1(path).serialise().encode())] + handle_ops:
        data, exc = guarded(op, fn)
        if data is not None and b'OUTSIDE' in data:
            fail(f'{op}({path!r}) returned data from outside the root: {data[:60]!r}')
    # folder walk
    def walk():
        out = []
        for f in fs.walk_folder(path):
            with f.open_bin() as fh:
                out.append((f.path, fh.read()))
        return out
    listing, exc = guarded('walk_folder', walk)
    if listing:
        for fp, data in listing:
            if b'OUTSIDE' in data:
                fail(f'walk_folder({path!r}) listed {fp!r} whose data comes from outside the root')
                break
    if listing is not None and not inside:
        fail(f'walk_folder({path!r}) did not raise although the folder resolves outside the root', key=classify(path) + ':silent-miss')


def make_systems(sb: Sandbox):
    from srctools.filesys import RawFileSystem, FileSystemChain
    systems = []
    systems.append(('raw', RawFileSystem(sb.root, constrain_path=True), sb.root, ''))
    systems.append(('raw-trailing-sep', RawFileSystem(sb.root + os.sep, constrain_path=True), sb.root, ''))
    systems.append(('raw-relative-root', RawFileSystem(os.path.relpath(sb.root), constrain_path=True), sb.root, ''))
    systems.append(('chain', FileSystemChain(RawFileSystem(sb.root)), sb.root, ''))
    systems.append(('chain-prefix-sub', FileSystemChain((RawFileSystem(sb.root), 'sub')), sb.root, 'sub'))
    systems.append(('raw-sub-root', RawFileSystem(os.path.join(sb.root, 'sub')), os.path.join(sb.root, 'sub'), ''))
    systems.append(('raw-after-unconstrained-twin', RawFileSystem(sb.root, constrain_path=True), sb.root, ''))
    systems.append(('raw-primed', RawFileSystem(sb.root, constrain_path=True), sb.root, ''))
    # other spellings of the same root: a path object, a detour through a sibling, a doubled separator
    import pathlib
    systems.append(('raw-pathlib-root', RawFileSystem(pathlib.Path(sb.root), constrain_path=True), sb.root, ''))
    systems.append(('raw-root-via-sibling', RawFileSystem(os.path.join(sb.base, 'rootx', '..', 'root'), constrain_path=True), sb.root, ''))
    systems.append(('raw-root-doubled-sep', RawFileSystem(sb.base + os.sep + os.sep + 'root', constrain_path=True), sb.root, ''))
    # the option switched on through the public attribute of a filesystem that was created without it
    late = RawFileSystem(sb.root, constrain_path=False)
    late.constrain_path = True
    systems.append(('raw-constrained-by-attribute', late, sb.root, ''))
    # chain prefixes in other spellings
    systems.append(('chain-prefix-sub-slash', FileSystemChain((RawFileSystem(sb.root), 'sub/')), sb.root, 'sub'))
    systems.append(('chain-prefix-dot-sub', FileSystemChain((RawFileSystem(sb.root), './sub')), sb.root, 'sub'))
    # the factory: every call hands out a filesystem of its own - one caller switching the constraint of ITS object off has
    # no effect on what the next caller gets for the same folder (under either spelling)
    from srctools.filesys import get_filesystem
    relaxed = get_filesystem(sb.root)
    relaxed.constrain_path = False
    systems.append(('get_filesystem-after-another-was-relaxed', get_filesystem(sb.root), sb.root, ''))
    systems.append(('get_filesystem-trailing-sep-after-another-was-relaxed', get_filesystem(sb.root + os.sep), sb.root, ''))
    sb.keep_alive = relaxed
    # history: a root given relative to the working directory, and the working directory changes before the filesystem is
    # used - to a place where the same relative name exists.  The root is the directory it named when it was created.
    sb.cwd0 = os.getcwd()
    os.chdir(sb.base)
    systems.append(('raw-relative-root-then-chdir', RawFileSystem('root', constrain_path=True), sb.root, ''))
    systems.append(('chain-relative-root-then-chdir', FileSystemChain((RawFileSystem('root' + os.sep), 'sub')), sb.root, 'sub'))
    os.chdir(os.path.join(sb.base, 'elsewhere'))
    return systems


def main(run, shard=(0, 1)) -> None:
    import srctools.filesys as fsm
    import srctools.packlist as pl
    probe = ReachProbe({'RawFileSystem._resolve_path': (fsm, 'RawFileSystem._resolve_path'),
                        'RawFileSystem.walk_folder': (fsm, 'RawFileSystem.walk_folder'),
                        'FileSystemChain._get_file': (fsm, 'FileSystemChain._get_file'), 'unify_path': (pl, 'unify_path')})
    probe.start()
    sb = Sandbox()
    aud = Auditor(sb.base)
    try:
        systems = make_systems(sb)
        from srctools.filesys import RawFileSystem as _Raw
        twin_fs = _Raw(sb.root, constrain_path=False)
        thorough = run.tier == 'thorough'
        L = 6 if thorough else 5
        idx = 0
        evals = nontriv = 0
        abs_prefixes = ['', sb.root + '/', sb.base + '/root_evil/', sb.base + '/', '/']
        for n in range(1, L + 1):
            for segs in itertools.product(SEGMENTS, repeat=n):
                idx += 1
                if not mine(idx, shard):
                    continue
                rel = '/'.join(segs)
                rng = sub_rng(run.seed, 'sep', idx)
                variants = [rel]
                r = rng.random()
                if r < 0.12:
                    variants.append(rel.replace('/', '\\'))
                elif r < 0.2:
                    variants.append(''.join(c if c != '/' or rng.random() < 0.5 else '\\' for c in rel))
                elif r < 0.3:
                    variants.append(rng.choice(abs_prefixes[1:]) + rel)
                elif r < 0.36:
                    try:
                        variants.append(pl.unify_path(rel))
                        run.count('unify_path_outputs_fed')
                    except ValueError:
                        pass
                # pack paths: unify_path() either refuses the name or hands back one that stays below any root it is joined to
                for path in variants:
                    try:
                        uni = pl.unify_path(path)
                    except ValueError:
                        run.count('unify_path_refusals')
                        continue
                    run.count('unify_path_outputs_judged')
                    if os.path.isabs(uni) or not sb.contained(uni.replace('\\', '/')):
                        run.violation(f'unify_path({path!r}) returned {uni!r}, which leaves the folder it is joined to',
                                      case={'path': path}, engine='exhaustive', key='unify-path-escapes')
                # the main systems get every path; the secondary configurations a seeded quarter
                for path in variants:
                    for si, (label, fs, root, prefix) in enumerate(systems):
                        if si >= 1 and (idx // shard[1] + si) % 4:
                            continue
                        probe_path(run, sb, aud, fs, root, label, path, 'exhaustive', prefix,
                                   twin=twin_fs if label == 'raw-after-unconstrained-twin' else None)
                        evals += 1
                        if '..' in path or os.path.isabs(path):
                            nontriv += 1
        run.case_bulk(evals, nontriv)
        run.count('paths_enumerated', idx)
        run.extra['exhaustive_core'] = True
        run.extra['max_segments'] = L
        run.extra['segment_alphabet'] = SEGMENTS
        run.sample({'path': '../root_evil/x.txt', 'config': 'raw', 'resolves_inside': False}, 'exhaustive')
        run.sample({'path': 'sub/../../root/a.txt', 'config': 'chain-prefix-sub', 'resolves_inside': True}, 'exhaustive')
    finally:
        aud.armed = False
        sb.cleanup()
    probe.report(run)
    probe.check_reached(run)
    run.require('operations', 'file_handle_opens', 'unify_path_refusals', 'unify_path_outputs_judged', 'root_escape_errors', 'paths_enumerated', 'primed_operations')


def replay(run, data) -> None:
    case = data['case']
    sb = Sandbox()
    aud = Auditor(sb.base)
    try:
        for label, fs, root, prefix in make_systems(sb):
            if label == case.get('config'):
                from srctools.filesys import RawFileSystem as _Raw
                probe_path(run, sb, aud, fs, root, label, case['path'], 'replay', prefix,
                           twin=_Raw(sb.root, constrain_path=False) if label == 'raw-after-unconstrained-twin' else None)
    finally:
        aud.armed = False
        sb.cleanup()
    run.case(case, True, sample=case, tag='replay')
    run.case('pad', True)


# (kept at the end of the file so that the text above stays the description the check was first built to)
RULE += ' ' + "Later additions: the root given as a path object, through a sibling ('rootx/../root') and with a doubled separator; constrain_path switched on through the attribute; chain prefixes 'sub/' and './sub'; File handles passed to open_bin / open_str; unify_path() judged on its own (refuses the name or returns one that stays below the folder it is joined to)."
